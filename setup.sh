#!/bin/bash
# Builds the overlay virtualenv (offline): /venv's packages + crosshair-tool + z3-solver.
set -e
cd "$(dirname "$0")"
exec 9>/verif/.venv.lock
flock 9
if [ ! -x .venv/bin/python ] || ! .venv/bin/python -c "import z3, crosshair" 2>/dev/null; then
  rm -rf .venv
  /venv/bin/python -m venv .venv
  echo "import site; site.addsitedir('/venv/lib/python3.12/site-packages')" > .venv/lib/python3.12/site-packages/_verif_overlay.pth
  PIP_NO_INDEX=1 .venv/bin/pip install -q --no-index --find-links /opt/veriftools/wheels crosshair-tool z3-solver cvc5 jsonschema
fi
.venv/bin/python -c "import z3, crosshair, pydiverse.transform" 
