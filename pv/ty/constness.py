"""C13, expression level: const-ness of typed constants and their acceptance in parameters
declared constant.  E3 decides the signature matcher over *types*; how an expression gets its
(const) type is code outside that matcher (`LiteralCol`, `Cast.dtype`, `lit`).  No value
quantifier: the finite product operator x const position x constant form is evaluated on the
real `ColFn(...).dtype()`.

Rule (C13): "every sized integer / float type is accepted wherever the generic one is, a
constant argument is accepted wherever a column argument is":
  (a) lit(v, T) and lit(v).cast(T) are const and of type T for every sized T of v's family;
  (b) an operator call whose const-declared parameter receives the python literal v is accepted
      iff the same call with lit(v), lit(v, T), lit(v).cast(T) is accepted, and the result type
      has the same family."""

from __future__ import annotations


def run():
    import pydiverse.transform as pdt
    from pydiverse.common import Float32, Float64, Int8, Int16, Int32, Int64, String, UInt8, UInt16, UInt32, UInt64
    from pydiverse.transform._internal.errors import DataTypeError
    from pydiverse.transform._internal.ops.op import Ftype
    from pydiverse.transform._internal.tree import types as T
    from pydiverse.transform._internal.tree.col_expr import Col, ColFn

    from . import e3

    viol, n = [], 0
    fams = {
        "int": (2, [Int8(), Int16(), Int32(), Int64(), UInt8(), UInt16(), UInt32(), UInt64()]),
        "float": (1.5, [Float32(), Float64()]),
        "str": ("a", [String(5)]),
    }

    def fam_of(t):
        t = T.without_const(t)
        return "int" if t.is_int() else "float" if t.is_float() else "str" if isinstance(t, String) else "bool" if t == pdt.Bool() else type(t).__name__

    def forms(v, fam):
        out = [("python", v), ("lit", pdt.lit(v))]
        for t in fams[fam][1]:
            out.append((f"lit({t})", pdt.lit(v, t)))
            try:
                out.append((f"lit.cast({t})", pdt.lit(v).cast(t)))
            except DataTypeError:
                pass
        return out

    # (a)
    for fam, (v, tys) in fams.items():
        for t in tys:
            for label, e in (("lit(v,T)", lambda t=t: pdt.lit(v, t)), ("lit(v).cast(T)", lambda t=t: pdt.lit(v).cast(t))):
                n += 1
                try:
                    d = e().dtype()
                except DataTypeError:
                    continue
                if not T.is_const(d) or T.without_const(d) != t:
                    viol.append({"key": f"c13.const.{label}.{t}", "what": f"{label} with T={t} has dtype {d}: a typed constant must stay const and have type T", "payload": {}})
    # (b)
    for opname, op in e3.operators().items():
        for sig in op.signatures:
            cpos = [i for i, t in enumerate(sig.types) if T.is_const(t)]
            if not cpos:
                continue
            base = []
            ok = True
            for i, t in enumerate(sig.types):
                bt = T.without_const(t)
                if isinstance(bt, T.Tyvar):
                    bt = Int64()
                if i in cpos:
                    f = fam_of(bt)
                    if f not in fams:
                        ok = False
                    base.append(("const", f))
                else:
                    base.append(("col", bt))
            if not ok:
                continue
            for k in cpos:
                fam = base[k][1]
                v = fams[fam][0]
                results = {}
                for label, form in forms(v, fam):
                    args = []
                    for i, (kind, x) in enumerate(base):
                        if kind == "col":
                            args.append(Col(f"c{i}", None, None, x, Ftype.ELEMENT_WISE))
                        elif i == k:
                            args.append(form)
                        else:
                            args.append(fams[x][0])
                    n += 1
                    try:
                        d = ColFn(op, *args).dtype()
                        results[label] = ("ok", fam_of(d))
                    except DataTypeError:
                        results[label] = ("rejected", None)
                    except Exception as e:  # noqa: BLE001
                        results[label] = (f"internal:{type(e).__name__}", None)
                ref = results["python"]
                bad = {lb: r for lb, r in results.items() if r != ref}
                if bad:
                    viol.append(
                        {
                            "key": f"c13.const.{opname}.{'-'.join(str(t) for t in sig.types)}.arg{k}",
                            "what": f"{opname}: parameter {k} (declared const) accepts the python literal as {ref} but typed constants differ: {dict(list(bad.items())[:3])}",
                            "payload": {"operator": opname, "signature": [str(t) for t in sig.types], "position": k, "results": {a: list(b) for a, b in results.items()}},
                        }
                    )
    return viol, n
