"""E3: overload resolution over the whole type universe, in z3.

On every run the live objects are read out:
  * the relations conv(s, t), cost(s, t), implicit(s) ∋ t  by CALLING the real
    converts_to / conversion_cost / implicit_conversions on U x U (static tables);
  * every Operator's real signature trie (walked as data).
The argument tuple is a vector of z3 constants over the finite sort U; the trie matching
of `SignatureTrie.all_matches` is evaluated symbolically over that vector (conditions are
table look-ups), so one query decides an obligation for ALL tuples of that arity.

The symbolic matcher is a reference model of the matching algorithm; it is validated
against the real `trie.best_match` exhaustively for every operator on all unary and
binary tuples (and on every witness).  A disagreement, an internal error of the real code
or a violated uniformity clause is replayed on the real `Operator.return_type` before it is
reported."""

from __future__ import annotations

import itertools
import time

import z3


def universe():
    from pydiverse.common import (
        Bool, Date, Datetime, Decimal, Duration, Enum, Float, Float32, Float64, Int, Int8, Int16, Int32, Int64, List,
        NullType, String, Time, UInt8, UInt16, UInt32, UInt64,
    )  # fmt: skip
    from pydiverse.transform._internal.tree.types import Const

    base = [
        Int8(), Int16(), Int32(), Int64(), UInt8(), UInt16(), UInt32(), UInt64(), Int(), Float32(), Float64(), Float(),
        Decimal(), Decimal(15, 6), String(), String(8), Enum("a", "b"), Bool(), Date(), Datetime(), Time(), Duration(),
        NullType(), List(Int64()), List(String()),
    ]  # fmt: skip
    return base, base + [Const(t) for t in base]


class Tables:
    """relations of the real type lattice, read by calling the real functions"""

    def __init__(self):
        from pydiverse.transform._internal.tree import types as T

        self.T = T
        self.base, self.U = universe()
        self.idx = {}
        for i, t in enumerate(self.U):
            self.idx[self.key(t)] = i
        n = len(self.U)
        self.conv = [[False] * n for _ in range(n)]
        self.cost = [[None] * n for _ in range(n)]
        self.internal_errors = []
        for i, s in enumerate(self.U):
            for j, t in enumerate(self.U):
                try:
                    self.conv[i][j] = bool(T.converts_to(s, t))
                except Exception as e:  # noqa: BLE001
                    self.internal_errors.append(("converts_to", repr(s), repr(t), type(e).__name__))
                    continue
                if self.conv[i][j]:
                    try:
                        c = T.conversion_cost(s, t)
                        assert isinstance(c, tuple) and len(c) == 2
                        self.cost[i][j] = c
                    except Exception as e:  # noqa: BLE001
                        self.internal_errors.append(("conversion_cost", repr(s), repr(t), type(e).__name__))
        self.implicit = []
        for s in self.U:
            try:
                self.implicit.append([self.key(x) for x in T.implicit_conversions(T.without_const(s))])
            except Exception as e:  # noqa: BLE001
                self.internal_errors.append(("implicit_conversions", repr(s), "", type(e).__name__))
                self.implicit.append([])
        self.calls = n * n * 2 + n

    def key(self, t):
        return repr(t)

    def index(self, t):
        return self.idx.get(self.key(t))

    def is_const(self, i):
        return self.T.is_const(self.U[i])

    def family(self, t):
        t = self.T.without_const(t)
        if t.is_int():
            return "int"
        from pydiverse.common import Decimal

        if isinstance(t, Decimal):
            return "decimal"
        if t.is_float():
            return "float"
        return type(t).__name__


class SymMatcher:
    """symbolic evaluation of SignatureTrie.all_matches over a vector of z3 type constants"""

    def __init__(self, tb: Tables):
        self.tb = tb
        n = len(tb.U)
        self.n = n
        self.sort = z3.IntSort()
        # tables as z3 functions with ground definitions
        self.CONV = z3.Function("conv", z3.IntSort(), z3.IntSort(), z3.BoolSort())
        self.C1 = z3.Function("cost1", z3.IntSort(), z3.IntSort(), z3.IntSort())
        self.C2 = z3.Function("cost2", z3.IntSort(), z3.IntSort(), z3.IntSort())
        self.IMPL = z3.Function("impl", z3.IntSort(), z3.IntSort(), z3.BoolSort())
        self.defs = []
        for i in range(n):
            for j in range(n):
                self.defs.append(self.CONV(i, j) == tb.conv[i][j])
                if tb.cost[i][j] is not None:
                    self.defs.append(self.C1(i, j) == tb.cost[i][j][0])
                    self.defs.append(self.C2(i, j) == tb.cost[i][j][1])
        for i in range(n):
            impl = set(tb.implicit[i])
            for j, t in enumerate(tb.U):
                self.defs.append(self.IMPL(i, j) == (tb.key(t) in impl))

    def args(self, k, prefix="a"):
        vs = [z3.Int(f"{prefix}{i}") for i in range(k)]
        cons = [z3.And(v >= 0, v < self.n) for v in vs]
        return vs, cons

    def matches(self, node, args, depth=0, tyvars=None):
        """list of (cond, match_types(list of U indices), data) mirroring all_matches"""
        T = self.tb.T
        tyvars = tyvars or {}
        if depth == len(args):
            data = node.data
            if data is None:
                return []
            if isinstance(data, T.Tyvar):
                data = tyvars.get(data.name)
                if data is None:
                    return []
            return [(z3.BoolVal(True), [], data)]
        a = args[depth]
        out = []
        tyvar_child = None
        for dtype, child in node.children.items():
            base_type = T.without_const(dtype)
            match_dtype = tyvars[base_type.name] if isinstance(base_type, T.Tyvar) and base_type.name in tyvars else dtype
            if isinstance(T.without_const(match_dtype), T.Tyvar):
                tyvar_child = dtype
                continue
            mi = self.tb.index(match_dtype)
            if mi is None:
                continue  # parameter type outside the universe (never convertible-to from U except itself)
            c0 = self.CONV(a, mi)
            for cond, msig, data in self.matches(child, args, depth + 1, tyvars):
                out.append((z3.And(c0, cond), [mi] + msig, data))
        if tyvar_child is not None:
            name = T.without_const(tyvar_child).name
            nontyvar = list(out)
            for t in self.tb.base:
                ti = self.tb.index(t)
                match_dtype = T.with_const(t) if T.is_const(tyvar_child) else t
                mi = self.tb.index(match_dtype)
                already = z3.Or([c for c, ms, _ in nontyvar if self.tb.key(T.without_const(self.tb.U[ms[0]])) == self.tb.key(t)] + [z3.BoolVal(False)])
                c0 = z3.And(self.IMPL(a, ti), z3.Not(already), self.CONV(a, mi))
                for cond, msig, data in self.matches(node.children[tyvar_child], args, depth + 1, {**tyvars, name: match_dtype}):
                    out.append((z3.And(c0, cond), [mi] + msig, data))
        return out

    def dist(self, args, msig):
        d1 = z3.Sum([self.C1(a, m) for a, m in zip(args, msig, strict=True)]) if msig else z3.IntVal(0)
        d2 = z3.Sum([self.C2(a, m) for a, m in zip(args, msig, strict=True)]) if msig else z3.IntVal(0)
        return d1, d2


def lex_le(a, b):
    return z3.Or(a[0] < b[0], z3.And(a[0] == b[0], a[1] <= b[1]))


def operators():
    from pydiverse.transform._internal.ops import ops
    from pydiverse.transform._internal.ops.op import Operator

    return {n: getattr(ops, n) for n in sorted(dir(ops)) if isinstance(getattr(ops, n), Operator)}


def arities(op, max_vararg=4):
    out = set()
    for s in op.signatures:
        k = len(s.types)
        if s.is_vararg:
            out |= set(range(max(1, k - 1), max_vararg + 1)) if False else set(range(k, max_vararg + 1))
        else:
            out.add(k)
    return sorted(out)


def real_return(op, sig):
    """('ok', ret) | ('rejected', None) | ('internal', exc-name)"""
    try:
        r = op.return_type(sig)
    except Exception as e:  # noqa: BLE001
        return ("internal", f"{type(e).__name__}: {str(e)[:80]}")
    return ("rejected", None) if r is None else ("ok", r)


def run(tier, seed, only_ops=None):
    t0 = time.time()
    tb = Tables()
    sm = SymMatcher(tb)
    ops = operators()
    if only_ops is not None:
        ops = {k: v for k, v in ops.items() if k in only_ops}
    U = tb.U
    n = len(U)
    T = tb.T
    violations, samples, faults = [], [], []
    stats = {"queries": 0, "unsat": 0, "sat": 0, "unknown": 0, "solver_seconds": 0.0, "real_calls_validation": 0, "model_disagreements": 0}
    for e in tb.internal_errors:
        violations.append({"key": f"c13.tables.{e[0]}.{e[1]}.{e[2]}", "what": f"{e[0]}({e[1]}, {e[2]}) raised {e[3]}", "payload": {"call": e}})

    GEN = {}  # sized type index -> generic type index (same constness)
    from pydiverse.common import Decimal, Float, Int

    for i, t in enumerate(U):
        b = T.without_const(t)
        g = None
        if b.is_int() and type(b) is not Int:
            g = Int()
        elif isinstance(b, Decimal) and b != Decimal():
            g = Decimal()
        elif b.is_float() and type(b) is not Float and not isinstance(b, Decimal):
            g = Float()
        if g is not None:
            GEN[i] = tb.index(T.with_const(g) if T.is_const(t) else g)
    CONSTOF = {i: tb.index(T.with_const(t)) for i, t in enumerate(U) if not T.is_const(t)}
    FAM = {i: tb.family(t) for i, t in enumerate(U)}
    fam_ids = {f: k for k, f in enumerate(sorted(set(FAM.values())))}

    S = z3.Solver()
    S.set("timeout", 60000 if tier == "quick" else 240000)
    for c in sm.defs:
        S.add(c)

    def solve(cons):
        S.push()
        for c in cons:
            S.add(c)
        t1 = time.time()
        r = str(S.check())
        mdl = S.model() if r == "sat" else None
        S.pop()
        stats["queries"] += 1
        stats["solver_seconds"] += time.time() - t1
        stats[r if r in ("sat", "unsat") else "unknown"] += 1
        return r, mdl

    def tuple_of(model, args):
        return [U[model.eval(a, model_completion=True).as_long()] for a in args]

    def encode(op, args, tag):
        """returns (cands, accepted, B, side): cands = [(m, d1, d2, data)]"""
        cands = []
        for cond, msig, data in sm.matches(op.trie.root, args):
            d1, d2 = sm.dist(args, msig)
            cands.append((cond, d1, d2, data))
        if not cands:
            return cands, z3.BoolVal(False), None, []
        B1, B2 = z3.Int(f"B1{tag}"), z3.Int(f"B2{tag}")
        accepted = z3.Or([c[0] for c in cands])
        side = [z3.Implies(m, lex_le((B1, B2), (d1, d2))) for m, d1, d2, _ in cands]
        side.append(z3.Implies(accepted, z3.Or([z3.And(m, d1 == B1, d2 == B2) for m, d1, d2, _ in cands])))
        return cands, accepted, (B1, B2), side

    def ret_family(cands, B):
        r = z3.IntVal(-1)
        for m, d1, d2, data in reversed(cands):
            r = z3.If(z3.And(m, d1 == B[0], d2 == B[1]), z3.IntVal(fam_ids.get(tb.family(data), -2)), r)
        return r

    # ---- model validation: exhaustive on unary + binary tuples, against the real trie
    for name, op in ops.items():
        for k in arities(op):
            if k > 2:
                continue
            args, acons = sm.args(k)
            cands, accepted, B, side = encode(op, args, "")
            for tup in itertools.product(range(n), repeat=k):
                sig = [U[i] for i in tup]
                real = real_return(op, sig)
                stats["real_calls_validation"] += 1
                if real[0] == "internal":
                    violations.append({"key": f"c13.internal.{name}({', '.join(map(repr, sig))})", "what": f"type checking fails with an internal error: {real[1]}", "payload": {"op": name, "sig": [repr(s) for s in sig]}})
                    continue
                # model prediction by direct evaluation of the ground conditions
                pred = _ground_eval(tb, op, sig)
                if pred != (real[0], tb.key(real[1]) if real[1] is not None else None):
                    stats["model_disagreements"] += 1
                    if len(faults) < 10:
                        faults.append(f"c13 model/real disagreement {name}{[repr(s) for s in sig]}: model {pred} real {real}")
                    # a disagreement with the *intended* matching rule: report as violation candidate
                    violations.append({"key": f"c13.deviation.{name}({', '.join(map(repr, sig))})", "what": f"overload resolution deviates from the reference matching rule: reference {pred}, real {(real[0], repr(real[1]))}", "payload": {"op": name, "sig": [repr(s) for s in sig]}})

    # ---- solver obligations for all tuples of every arity
    for name, op in ops.items():
        for k in arities(op):
            if k == 0:
                continue
            args, acons = sm.args(k)
            cands, accepted, B, side = encode(op, args, "")
            if not cands:
                continue
            # O1: no ambiguity (the uniqueness assertion of best_signature_match can never fire)
            cnt = z3.Sum([z3.If(z3.And(m, d1 == B[0], d2 == B[1]), 1, 0) for m, d1, d2, _ in cands])
            r, mdl = solve(acons + side + [accepted, cnt >= 2])
            if r == "sat":
                sig = tuple_of(mdl, args)
                real = real_return(op, sig)
                if real[0] == "internal":
                    violations.append({"key": f"c13.internal.{name}({', '.join(map(repr, sig))})", "what": f"ambiguous overloads: type checking fails with an internal error: {real[1]}", "payload": {"op": name, "sig": [repr(s) for s in sig]}})
                else:
                    faults.append(f"c13 O1 witness {name}{[repr(s) for s in sig]} not reproduced: real {real}")
            if len(samples) < 8:
                samples.append({"operator": name, "arity": k, "candidates": len(cands), "O1": r})
            # O2: sized types accepted wherever the generic one is, same result family
            for i in range(k):
                b_args, bcons = sm.args(k, prefix="b")
                link = [b_args[j] == args[j] for j in range(k) if j != i]
                link.append(z3.Or([z3.And(args[i] == s, b_args[i] == g) for s, g in GEN.items()]))
                cands_b, acc_b, Bb, side_b = encode(op, b_args, "b")
                bad = z3.And(acc_b, z3.Or(z3.Not(accepted), ret_family(cands, B) != ret_family(cands_b, Bb)))
                r, mdl = solve(acons + bcons + side + side_b + link + [bad])
                if r == "sat":
                    sig, sig_g = tuple_of(mdl, args), tuple_of(mdl, b_args)
                    ra, rg = real_return(op, sig), real_return(op, sig_g)
                    real_bad = rg[0] == "ok" and (ra[0] != "ok" or tb.family(ra[1]) != tb.family(rg[1]))
                    if real_bad or ra[0] == "internal":
                        violations.append({"key": f"c13.sized.{name}({', '.join(map(repr, sig))})", "what": f"sized type not uniform with its generic type: {[repr(s) for s in sig]} -> {ra}, {[repr(s) for s in sig_g]} -> {rg}", "payload": {"op": name, "sig": [repr(s) for s in sig]}})
                    else:
                        faults.append(f"c13 O2 witness {name}{[repr(s) for s in sig]} not reproduced")
                # O3: a constant argument is accepted wherever a column argument is
                link = [b_args[j] == args[j] for j in range(k) if j != i]
                link.append(z3.Or([z3.And(args[i] == s, b_args[i] == c) for s, c in CONSTOF.items()]))
                r, mdl = solve(acons + bcons + side + side_b + link + [accepted, z3.Not(acc_b)])
                if r == "sat":
                    sig, sig_c = tuple_of(mdl, args), tuple_of(mdl, b_args)
                    ra, rc = real_return(op, sig), real_return(op, sig_c)
                    if ra[0] == "ok" and rc[0] != "ok":
                        violations.append({"key": f"c13.const.{name}({', '.join(map(repr, sig_c))})", "what": f"constant argument rejected where the column argument is accepted: {[repr(s) for s in sig]} -> {ra}, {[repr(s) for s in sig_c]} -> {rc}", "payload": {"op": name, "sig": [repr(s) for s in sig_c]}})
                    else:
                        faults.append(f"c13 O3 witness {name}{[repr(s) for s in sig_c]} not reproduced")
            # O4: parameters declared const reject column arguments
            for m, d1, d2, data in []:
                pass
    # O4 on the declared signatures (structural over the tables)
    for name, op in ops.items():
        for s in op.signatures:
            for i, p in enumerate(s.types):
                if T.is_const(p):
                    k = len(s.types)
                    args, acons = sm.args(k)
                    cands, accepted, B, side = encode(op, args, "")
                    nonconst = z3.Or([args[i] == j for j, t in enumerate(U) if not T.is_const(t)])
                    # any accepted call whose i-th argument is a column must not use a const match there
                    bad = z3.Or([z3.BoolVal(False)] + [m for (m, _, _, _), (_, msig, _) in zip(cands, sm.matches(op.trie.root, args), strict=True) if T.is_const(U[msig[i]])])
                    r, mdl = solve(acons + [nonconst, bad])
                    if r == "sat":
                        sig = tuple_of(mdl, args)
                        ra = real_return(op, sig)
                        if ra[0] == "ok":
                            violations.append({"key": f"c13.constparam.{name}", "what": f"parameter {i} is declared const but a column argument is accepted: {[repr(x) for x in sig]}", "payload": {"op": name, "sig": [repr(x) for x in sig]}})
    coverage = {
        "obligations": stats["queries"],
        "discharged": stats["unsat"],
        "checker_cmd": "./check C13",
        "trusted_base": ["z3", "the symbolic matcher pv/ty/e3.py (validated exhaustively against the real trie on all unary and binary tuples)", "relations conv/cost/implicit read by calling the real functions"],
        "evaluations": stats["queries"] + stats["real_calls_validation"],
        "distinct_nontrivial": stats["queries"],
        "samples": samples,
        "operators": len(ops),
        "type_universe": [repr(t) for t in U],
        "table_calls_to_real_code": tb.calls,
        "real_calls_validation": stats["real_calls_validation"],
        "model_disagreements": stats["model_disagreements"],
        "sat_replayed": stats["sat"],
        "inconclusive": stats["unknown"],
        "solver_seconds": round(stats["solver_seconds"], 1),
        "functions_encoded": ["ops/signature.py:SignatureTrie.Node.all_matches", "ops/signature.py:best_signature_match", "ops/signature.py:sig_distance", "tree/types.py:converts_to", "tree/types.py:conversion_cost", "tree/types.py:implicit_conversions", "ops/op.py:Operator.return_type"],
        "bounds": {"arity": "declared arity; varargs unrolled to 4 arguments", "universe": f"{len(U)} types (25 base types, each plain and const); other Decimal(p,s) / String(n) / Enum / List parameters are outside"},
        "rule": "one z3 query per (operator, arity, obligation, argument position) over all argument-type tuples; non-trivial = every query (each ranges over |U|^arity tuples)",
        "exhaustive": False,
        "explanation": "O1 no ambiguous best match (internal AssertionError), O2 sized types uniform with generic ones, O3 const accepted where column is, O4 const parameters reject columns; decided by z3 over finite tables read from the live code; witnesses replayed on Operator.return_type",
    }
    return violations, faults, coverage, time.time() - t0


def _ground_eval(tb: Tables, op, sig):
    """reference matching rule evaluated concretely (python mirror of the symbolic matcher)"""
    T = tb.T
    idx = [tb.index(s) for s in sig]

    def rec(node, depth, tyvars):
        if depth == len(sig):
            data = node.data
            if data is None:
                return []
            if isinstance(data, T.Tyvar):
                data = tyvars.get(data.name)
                if data is None:
                    return []
            return [([], data)]
        a = idx[depth]
        out = []
        tyvar_child = None
        for dtype, child in node.children.items():
            base_type = T.without_const(dtype)
            md = tyvars[base_type.name] if isinstance(base_type, T.Tyvar) and base_type.name in tyvars else dtype
            if isinstance(T.without_const(md), T.Tyvar):
                tyvar_child = dtype
                continue
            mi = tb.index(md)
            if mi is None or not tb.conv[a][mi]:
                continue
            for ms, data in rec(child, depth + 1, tyvars):
                out.append(([mi] + ms, data))
        if tyvar_child is not None:
            name = T.without_const(tyvar_child).name
            already = {tb.key(T.without_const(tb.U[ms[0]])) for ms, _ in out}
            for t in tb.base:
                if tb.key(t) not in tb.implicit[a] or tb.key(t) in already:
                    continue
                md = T.with_const(t) if T.is_const(tyvar_child) else t
                mi = tb.index(md)
                if not tb.conv[a][mi]:
                    continue
                for ms, data in rec(node.children[tyvar_child], depth + 1, {**tyvars, name: md}):
                    out.append(([mi] + ms, data))
        return out

    ms = rec(op.trie.root, 0, {})
    if not ms:
        return ("rejected", None)
    best = None
    for msig, data in ms:
        d = (sum(tb.cost[a][m][0] for a, m in zip(idx, msig, strict=True)), sum(tb.cost[a][m][1] for a, m in zip(idx, msig, strict=True)))
        if best is None or d < best[0]:
            best = (d, data, 1)
        elif d == best[0]:
            best = (best[0], best[1], best[2] + 1)
    if best[2] != 1:
        return ("internal", None)
    return ("ok", tb.key(best[1]))
