"""Bounded relational kernel: z3 term builders shared by the three interpreters
(SEM_polars, SEM_sqlite, REF).  See DESIGN.md section 2.1.

A *cell* is a typed nullable value (ty, null: z3 Bool, val: z3 term).
A *relation* (Rel) is a fixed number of row slots, each with a presence flag and an
order key `ok` (an Int term; among present rows the order keys are pairwise distinct and
define the row order; they need not be dense).

A *context* (Ctx) is the frame in which a column expression is evaluated: for every
viewer slot i, which slots j are its peers (whole frame, its group, its window
partition) and the dense position of i among its peers.
"""

from __future__ import annotations

import itertools

import z3

INT, BOOL, STR, REAL, NULLT = "int", "bool", "str", "real", "null"
# temporal types: DATE = days since 1970-01-01, DT = microseconds since 1970-01-01T00:00 (both
# z3 Int).  DT0 exists only inside SEM_sqlite: a datetime whose SQLite *text* has no
# fractional part ('YYYY-MM-DD HH:MM:SS', what datetime() returns) - same payload as DT.
# DTX (SEM_sqlite only): a temporal text whose form is known only per row (result of CASE /
# coalesce / min / max over different forms); payload = its text-order key (sem_sqlite.text_key).
DATE, DT, DT0, DTX = "date", "datetime", "datetime0", "temporal-text"
TEMPORAL = (DATE, DT, DT0, DTX)
# source-schema markers: a Datetime column whose *Polars frame* has millisecond / nanosecond time
# unit (the values are microsecond instants all the same; SEM_polars reads the physical unit from
# the scan schema of the plan and carries it until the plan casts it)
DT_MS, DT_NS = "datetime:ms", "datetime:ns"
DT_UNITS = (DT_MS, DT_NS)
US_DAY = 86_400_000_000
# bounded domain of symbolic dates: 1960-01-01 .. 2099-12-31 (DESIGN 2.1 Bounds)
DAY_LO, DAY_HI = -3653, 47481

_fresh_ctr = itertools.count()


def fresh(prefix: str, sort):
    return z3.Const(f"{prefix}!{next(_fresh_ctr)}", sort)


def zsort(ty):
    if ty in TEMPORAL or ty in DT_UNITS:
        return z3.IntSort()
    return {INT: z3.IntSort(), BOOL: z3.BoolSort(), STR: z3.StringSort(), REAL: z3.RealSort()}[ty]


def zdefault(ty):
    if ty in TEMPORAL or ty in DT_UNITS:
        return z3.IntVal(0)
    return {INT: z3.IntVal(0), BOOL: z3.BoolVal(False), STR: z3.StringVal(""), REAL: z3.RealVal(0)}[ty]


TRUE = z3.BoolVal(True)
FALSE = z3.BoolVal(False)


def And(*xs):
    xs = [x for x in xs if not z3.is_true(x)]
    if any(z3.is_false(x) for x in xs):
        return FALSE
    if not xs:
        return TRUE
    if len(xs) == 1:
        return xs[0]
    return z3.And(*xs)


def Or(*xs):
    xs = [x for x in xs if not z3.is_false(x)]
    if any(z3.is_true(x) for x in xs):
        return TRUE
    if not xs:
        return FALSE
    if len(xs) == 1:
        return xs[0]
    return z3.Or(*xs)


def Not(x):
    if z3.is_true(x):
        return FALSE
    if z3.is_false(x):
        return TRUE
    return z3.Not(x)


def If(c, a, b):
    if z3.is_true(c):
        return a
    if z3.is_false(c):
        return b
    return z3.If(c, a, b)


def b2i(b):
    return If(b, z3.IntVal(1), z3.IntVal(0))


def isum(xs):
    xs = list(xs)
    if not xs:
        return z3.IntVal(0)
    if len(xs) == 1:
        return xs[0]
    return z3.Sum(xs)


class Unsupported(Exception):
    """The artefact uses a construct outside the interpreters' grammar (inconclusive)."""


class Cell:
    __slots__ = ("ty", "null", "val")

    def __init__(self, ty, null, val):
        self.ty = ty
        self.null = null
        self.val = val

    def __repr__(self):
        return f"Cell({self.ty}, null={self.null}, val={self.val})"


def lit(v) -> Cell:
    if v is None:
        return Cell(NULLT, TRUE, None)
    if isinstance(v, bool):
        return Cell(BOOL, FALSE, z3.BoolVal(v))
    if isinstance(v, int):
        return Cell(INT, FALSE, z3.IntVal(v))
    if isinstance(v, float):
        from fractions import Fraction

        if v != v:
            raise Unsupported("NaN literal")
        if v in (float("inf"), float("-inf")):
            # larger in magnitude than every value of the bounded domain
            return Cell(REAL, FALSE, z3.RealVal(("-" if v < 0 else "") + "1" + "0" * 400))

        fr = Fraction(v)
        return Cell(REAL, FALSE, z3.RealVal(f"{fr.numerator}/{fr.denominator}"))
    if isinstance(v, str):
        return Cell(STR, FALSE, z3.StringVal(v))
    import datetime as _dt

    if isinstance(v, _dt.datetime):
        if v.tzinfo is not None:
            raise Unsupported("timezone-aware datetime literal")
        return Cell(DT, FALSE, z3.IntVal(dt_to_us(v)))
    if isinstance(v, _dt.date):
        return Cell(DATE, FALSE, z3.IntVal(date_to_days(v)))
    raise Unsupported(f"literal {v!r}")


def date_to_days(d):
    import datetime as _dt

    return (d - _dt.date(1970, 1, 1)).days


def dt_to_us(t):
    import datetime as _dt

    delta = t - _dt.datetime(1970, 1, 1)
    return (delta.days * 86400 + delta.seconds) * 1_000_000 + delta.microseconds


def days_to_date(n):
    import datetime as _dt

    return _dt.date(1970, 1, 1) + _dt.timedelta(days=n)


def us_to_dt(n):
    import datetime as _dt

    return _dt.datetime(1970, 1, 1) + _dt.timedelta(microseconds=n)


def null_of(ty) -> Cell:
    if ty == NULLT:
        return Cell(NULLT, TRUE, None)
    return Cell(ty, TRUE, zdefault(ty))


# float64 exactness of int -> float conversions.  Off (the default): |ints| <= 2**31 in every template, where the
# conversion is exact and `ToReal` is the right model.  On (templates tagged "wide", ints up to 2**62, set by e1.build
# around the two artefact interpreters only - REF never converts): the result is the integer itself up to 2**53 in
# magnitude and otherwise an unspecified float64 near it that cannot be an odd integer, so an artefact that sends an
# integer computation through floating point is not equivalent to the exact one any more.
WIDE = {"on": False, "side": [], "n": 0}


def _int_to_f64(x):
    if not WIDE["on"]:
        return z3.ToReal(x)
    WIDE["n"] += 1
    r = z3.Real(f"f64!{WIDE['n']}")
    lim = 2**53
    small = z3.And(x <= lim, x >= -lim)
    xr = z3.ToReal(x)
    WIDE["side"] += [z3.Implies(small, r == xr), r - xr <= 1024, xr - r <= 1024, z3.Implies(z3.And(z3.Not(small), x % 2 == 1), r != xr)]
    return r


def as_ty(c: Cell, ty) -> Cell:
    """Coerce a cell to a (wider) static type: null-typed -> anything, int -> real,
    bool -> int (0/1)."""
    if c.ty == ty or ty == NULLT:
        return c
    if c.ty == NULLT:
        return null_of(ty)
    if c.ty == INT and ty == REAL:
        return Cell(REAL, c.null, _int_to_f64(c.val))
    if c.ty == BOOL and ty == INT:
        return Cell(INT, c.null, b2i(c.val))
    if c.ty == BOOL and ty == REAL:
        return Cell(REAL, c.null, z3.ToReal(b2i(c.val)))
    raise Unsupported(f"coerce {c.ty} -> {ty}")


def common_ty(tys):
    tys = [t for t in tys if t != NULLT]
    if not tys:
        return NULLT
    s = set(tys)
    if len(s) == 1:
        return tys[0]
    if s <= {INT, REAL, BOOL}:
        return REAL if REAL in s else INT
    raise Unsupported(f"no common type for {s}")


def unify(cells):
    ty = common_ty([c.ty for c in cells])
    return ty, [as_ty(c, ty) for c in cells]


def c_ite(cond, a: Cell, b: Cell) -> Cell:
    ty, (a, b) = unify([a, b])
    if ty == NULLT:
        return a
    return Cell(ty, If(cond, a.null, b.null), If(cond, a.val, b.val))


def c_select(cases, default: Cell) -> Cell:
    """First (cond, cell) whose cond holds, else default."""
    res = default
    for cond, cell in reversed(list(cases)):
        res = c_ite(cond, cell, res)
    return res


def is_true(c: Cell):
    """z3 Bool: the (boolean) cell is non-null and true."""
    if c.ty == NULLT:
        return FALSE
    if c.ty == INT:  # SQLite truthiness
        return And(Not(c.null), c.val != 0)
    assert c.ty == BOOL, c.ty
    return And(Not(c.null), c.val)


def from_bool(b, null=FALSE) -> Cell:
    return Cell(BOOL, null, b)


# --------------------------------------------------------------------------------------
# proleptic Gregorian calendar (H. Hinnant's civil_from_days; z3 `/` and `%` on Int are the
# floor / Euclidean operations for positive constants)


def civil(days):
    """(year, month, day, day-of-year 1..366) of a day number (z3 Int terms)"""
    z = days + 719468
    era = z / 146097
    doe = z - era * 146097
    yoe = (doe - doe / 1460 + doe / 36524 - doe / 146096) / 365
    doy = doe - (365 * yoe + yoe / 4 - yoe / 100)
    mp = (5 * doy + 2) / 153
    d = doy - (153 * mp + 2) / 5 + 1
    m = If(mp < 10, mp + 3, mp - 9)
    y = yoe + era * 400 + If(m <= 2, 1, 0)
    # ordinal day counted from 1 January
    y1 = y - 1
    era1 = y1 / 400
    yoe1 = y1 - era1 * 400
    jan1 = era1 * 146097 + yoe1 * 365 + yoe1 / 4 - yoe1 / 100 + 306 - 719468
    return y, m, d, days - jan1 + 1


def temporal_field(c: Cell, field) -> Cell:
    """year/month/day/hour/minute/second/day_of_week (ISO, Monday=1)/day_of_year as INT"""
    if c.ty == NULLT:
        return null_of(INT)
    if c.ty not in TEMPORAL:
        raise Unsupported(f"temporal field of {c.ty}")
    if c.ty == DATE:
        days, sod = c.val, z3.IntVal(0)
    else:
        days, sod = c.val / US_DAY, c.val % US_DAY
    if field in ("year", "month", "day", "day_of_year"):
        y, m, d, j = civil(days)
        v = {"year": y, "month": m, "day": d, "day_of_year": j}[field]
    elif field == "day_of_week":
        v = (days + 3) % 7 + 1
    elif field == "hour":
        v = sod / 3_600_000_000
    elif field == "minute":
        v = (sod / 60_000_000) % 60
    elif field == "second":
        v = (sod / 1_000_000) % 60
    else:
        raise Unsupported(f"temporal field {field}")
    return Cell(INT, c.null, v)


def dt_to_date(c: Cell) -> Cell:
    if c.ty == NULLT:
        return null_of(DATE)
    return Cell(DATE, c.null, c.val / US_DAY)


def date_to_dt(c: Cell) -> Cell:
    if c.ty == NULLT:
        return null_of(DT)
    return Cell(DT, c.null, c.val * US_DAY)


# --------------------------------------------------------------------------------------
# element-wise operations (null-propagating unless stated)


def arith(op, a: Cell, b: Cell) -> Cell:
    if a.ty in TEMPORAL or b.ty in TEMPORAL:
        raise Unsupported("temporal arithmetic (durations are outside the model)")
    if a.ty == STR or b.ty == STR:
        if op != "+":
            raise Unsupported(f"string op {op}")
        ty, (a, b) = unify([a, b])
        if ty == NULLT:
            return a
        return Cell(STR, Or(a.null, b.null), z3.Concat(a.val, b.val))
    ty, (a, b) = unify([a, b])
    if ty == NULLT:
        return a
    if ty == BOOL:
        a, b = as_ty(a, INT), as_ty(b, INT)
        ty = INT
    null = Or(a.null, b.null)
    if op == "+":
        v = a.val + b.val
    elif op == "-":
        v = a.val - b.val
    elif op == "*":
        v = a.val * b.val
    else:
        raise Unsupported(op)
    return Cell(ty, null, v)


def euclid_div(a, b):
    return a / b  # z3 Int division: a = b*q + r with 0 <= r < |b|


def z_abs(x):
    return If(x >= 0, x, -x)


def z_floordiv(a, b):
    """floor(a / b) on mathematical integers (b != 0)."""
    return If(b > 0, a / b, (-a) / (-b))


def z_floormod(a, b):
    """a - b*floor(a/b): result has the sign of the divisor."""
    return a - b * z_floordiv(a, b)


def z_truncdiv(a, b):
    q = z_abs(a) / z_abs(b)
    return If((a < 0) != (b < 0), -q, q)


def z_truncmod(a, b):
    return a - b * z_truncdiv(a, b)


def int_binop(kind, a: Cell, b: Cell) -> Cell:
    """kind in floordiv / floormod / truncdiv / truncmod on ints."""
    ty, (a, b) = unify([a, b])
    if ty == NULLT:
        return a
    if ty == BOOL:
        a, b = as_ty(a, INT), as_ty(b, INT)
        ty = INT
    if ty == REAL:
        if kind in ("floordiv",):
            q = z3.ToReal(z3.ToInt(a.val / b.val))
            return Cell(REAL, Or(a.null, b.null), q)
        raise Unsupported(f"{kind} on reals")
    f = {"floordiv": z_floordiv, "floormod": z_floormod, "truncdiv": z_truncdiv, "truncmod": z_truncmod}[kind]
    return Cell(INT, Or(a.null, b.null), f(a.val, b.val))


def truediv(a: Cell, b: Cell) -> Cell:
    a, b = as_ty(a, REAL), as_ty(b, REAL)
    if a.ty == NULLT:
        return a
    if b.ty == NULLT:
        return b
    return Cell(REAL, Or(a.null, b.null), a.val / b.val)


def neg(a: Cell) -> Cell:
    if a.ty == NULLT:
        return a
    return Cell(a.ty, a.null, -a.val)


def c_abs(a: Cell) -> Cell:
    if a.ty == NULLT:
        return a
    return Cell(a.ty, a.null, z_abs(a.val))


def _val_cmp(op, ty, x, y):
    if op == "==":
        return x == y
    if op == "!=":
        return x != y
    if ty == BOOL:
        x, y = b2i(x), b2i(y)
    if ty == STR:
        lt = lambda p, q: p < q  # noqa: E731
        le = lambda p, q: p <= q  # noqa: E731
        return {"<": lt(x, y), "<=": le(x, y), ">": lt(y, x), ">=": le(y, x)}[op]
    return {"<": x < y, "<=": x <= y, ">": x > y, ">=": x >= y}[op]


def compare(op, a: Cell, b: Cell) -> Cell:
    ty, (a, b) = unify([a, b])
    if ty == NULLT:
        return null_of(BOOL)
    return Cell(BOOL, Or(a.null, b.null), _val_cmp(op, ty, a.val, b.val))


def k_and(a: Cell, b: Cell) -> Cell:
    a, b = _as_bool(a), _as_bool(b)
    # Kleene: false if either is false; null if (no false) and either null
    a_false = And(Not(a.null), Not(a.val))
    b_false = And(Not(b.null), Not(b.val))
    any_false = Or(a_false, b_false)
    null = And(Not(any_false), Or(a.null, b.null))
    return Cell(BOOL, null, And(Not(any_false), Not(null)))


def k_or(a: Cell, b: Cell) -> Cell:
    a, b = _as_bool(a), _as_bool(b)
    any_true = Or(is_true(a), is_true(b))
    null = And(Not(any_true), Or(a.null, b.null))
    return Cell(BOOL, null, any_true)


def k_xor(a: Cell, b: Cell) -> Cell:
    a, b = _as_bool(a), _as_bool(b)
    return Cell(BOOL, Or(a.null, b.null), z3.Xor(a.val, b.val))


def k_not(a: Cell) -> Cell:
    a = _as_bool(a)
    return Cell(BOOL, a.null, Not(a.val))


def _as_bool(a: Cell) -> Cell:
    if a.ty == NULLT:
        return null_of(BOOL)
    if a.ty == INT:
        return Cell(BOOL, a.null, a.val != 0)
    if a.ty != BOOL:
        raise Unsupported(f"boolean operand of type {a.ty}")
    return a


def is_null(a: Cell) -> Cell:
    return Cell(BOOL, FALSE, a.null)


def coalesce(cells) -> Cell:
    ty, cells = unify(cells)
    res = cells[-1]
    for c in reversed(cells[:-1]):
        res = c_ite(Not(c.null), c, res)
    return res


def h_extreme(kind, cells) -> Cell:
    """horizontal min/max skipping nulls (null iff all null)."""
    ty, cells = unify(cells)
    if ty == NULLT:
        return cells[0]
    res = cells[0]
    for c in cells[1:]:
        better = _val_cmp("<" if kind == "min" else ">", ty, c.val, res.val)
        take_c = And(Not(c.null), Or(res.null, better))
        res = Cell(ty, And(res.null, c.null), If(take_c, c.val, res.val))
    return res


def null_safe_eq(a: Cell, b: Cell):
    ty, (a, b) = unify([a, b])
    if ty == NULLT:
        return TRUE
    return Or(And(a.null, b.null), And(Not(a.null), Not(b.null), a.val == b.val))


def keys_eq(ka, kb):
    return And(*[null_safe_eq(a, b) for a, b in zip(ka, kb, strict=True)])


# --------------------------------------------------------------------------------------
# ordering


class SortKey:
    """One ordering key column: cells per slot + direction + where nulls go.
    nulls_last: True / False.  (Callers resolve engine defaults before building this.)"""

    __slots__ = ("cells", "desc", "nulls_last")

    def __init__(self, cells, desc=False, nulls_last=False):
        self.cells = cells
        self.desc = desc
        self.nulls_last = nulls_last


def _key_lt(k: SortKey, i, j):
    """slot i strictly before slot j w.r.t. this key."""
    a, b = k.cells[i], k.cells[j]
    ty, (a, b) = unify([a, b])
    if ty == NULLT:
        return FALSE
    vlt = _val_cmp(">" if k.desc else "<", ty, a.val, b.val)
    if k.nulls_last:
        return Or(And(Not(a.null), b.null), And(Not(a.null), Not(b.null), vlt))
    return Or(And(a.null, Not(b.null)), And(Not(a.null), Not(b.null), vlt))


def _key_eq(k: SortKey, i, j):
    return null_safe_eq(k.cells[i], k.cells[j])


def lex_before(keys, i, j, tiebreak=None):
    """slot i sorts strictly before slot j under the key list, ties broken by
    tiebreak(i, j) (a z3 Bool) if given."""
    res = tiebreak if tiebreak is not None else FALSE
    for k in reversed(keys):
        res = Or(_key_lt(k, i, j), And(_key_eq(k, i, j), res))
    return res


def lex_tie(keys, i, j):
    return And(*[_key_eq(k, i, j) for k in keys])


# --------------------------------------------------------------------------------------
# relations


class Rel:
    """names: ordered physical column names; data[name][i]: Cell; present[i]; ok[i]."""

    def __init__(self, names, data, present, ok):
        self.names = list(names)
        self.data = data
        self.present = list(present)
        self.ok = list(ok)
        assert all(len(v) == len(self.present) for v in data.values())

    @property
    def n(self):
        return len(self.present)

    def copy(self):
        return Rel(self.names, {k: list(v) for k, v in self.data.items()}, self.present, self.ok)

    def dense_pos(self):
        return dense_pos(self.present, self.ok)

    def project(self, names, rename=None):
        rename = rename or {}
        return Rel(
            [rename.get(n, n) for n in names],
            {rename.get(n, n): self.data[n] for n in names},
            self.present,
            self.ok,
        )


def dense_pos(present, ok):
    n = len(present)
    return [isum(b2i(And(present[j], ok[j] < ok[i])) for j in range(n) if j != i) for i in range(n)]


class SymInput:
    """A symbolic base table and the constraints that bound it."""

    def __init__(self, name, schema, nmax, *, int_bound=None, str_len=None, str_alphabet=None, nullable=True):
        self.name = name
        self.schema = dict(schema)  # col -> ty
        self.nmax = nmax
        self.nrows = z3.Int(f"{name}.n")
        self.constraints = [self.nrows >= 0, self.nrows <= nmax]
        self.vals = {}
        self.nulls = {}
        data = {}
        for col, ty in self.schema.items():
            cells = []
            for i in range(nmax):
                v = z3.Const(f"{name}.{col}[{i}]", zsort(ty))
                nl = z3.Bool(f"{name}.{col}[{i}].null") if nullable else FALSE
                self.vals[(col, i)] = v
                self.nulls[(col, i)] = nl
                if ty == INT and int_bound is not None:
                    self.constraints += [v >= -int_bound, v <= int_bound]
                if ty == REAL and int_bound is not None:
                    # dyadic quarter values m/4, |m| <= 4*int_bound
                    m = z3.Int(f"{name}.{col}[{i}].m")
                    self.constraints += [v == z3.ToReal(m) / 4, m >= -4 * int_bound, m <= 4 * int_bound]
                if ty == DATE:
                    self.constraints += [v >= DAY_LO, v <= DAY_HI]
                if ty in (DT, DT_MS, DT_NS):
                    self.constraints += [v >= DAY_LO * US_DAY, v < (DAY_HI + 1) * US_DAY]
                if ty == DT_MS:
                    self.constraints.append(v % 1000 == 0)
                if ty == STR:
                    if str_len is not None:
                        self.constraints.append(z3.Length(v) <= str_len)
                    if str_alphabet is not None:
                        self.constraints.append(z3.InRe(v, z3.Star(str_alphabet)))
                cells.append(Cell(DT if ty in DT_UNITS else ty, nl, v))
            data[col] = cells
        present = [self.nrows > i for i in range(nmax)]
        ok = [z3.IntVal(i) for i in range(nmax)]
        self.rel = Rel(list(self.schema), data, present, ok)

    def concrete(self, model):
        """Rows of the table under a z3 model: list of dicts (python values)."""
        n = model.eval(self.nrows, model_completion=True).as_long()
        rows = []
        for i in range(n):
            row = {}
            for col, ty in self.schema.items():
                if z3.is_true(model.eval(self.nulls[(col, i)], model_completion=True)):
                    row[col] = None
                else:
                    row[col] = pyval(model.eval(self.vals[(col, i)], model_completion=True), ty)
            rows.append(row)
        return rows

    def substitution(self, rows):
        """z3 substitution pairs binding this input to concrete rows."""
        assert len(rows) <= self.nmax
        subs = [(self.nrows, z3.IntVal(len(rows)))]
        for i in range(self.nmax):
            for col, ty in self.schema.items():
                v = rows[i][col] if i < len(rows) else None
                nl = self.nulls[(col, i)]
                if not z3.is_false(nl):
                    subs.append((nl, z3.BoolVal(v is None)))
                subs.append((self.vals[(col, i)], zdefault(ty) if v is None else lit_val(v, ty)))
        return subs


def lit_val(v, ty):
    if ty == REAL:
        from fractions import Fraction

        fr = Fraction(v)
        return z3.RealVal(f"{fr.numerator}/{fr.denominator}")
    if ty == INT:
        return z3.IntVal(int(v))
    if ty == BOOL:
        return z3.BoolVal(bool(v))
    if ty == DATE:
        return z3.IntVal(date_to_days(v))
    if ty in (DT, DT0, DT_MS, DT_NS):
        return z3.IntVal(dt_to_us(v))
    return z3.StringVal(v)


def pyval(z, ty):
    if ty == INT:
        return z.as_long()
    if ty == DATE:
        return days_to_date(z.as_long())
    if ty in (DT, DT0, DT_MS, DT_NS):
        return us_to_dt(z.as_long())
    if ty == BOOL:
        return z3.is_true(z)
    if ty == STR:
        return z.as_string() if not hasattr(z, "py_value") else z.py_value()
    if ty == REAL:
        fr = z.as_fraction() if hasattr(z, "as_fraction") else None
        if fr is None:
            return float(z.as_decimal(17).rstrip("?"))
        return float(fr)
    raise AssertionError(ty)


# --------------------------------------------------------------------------------------
# contexts


class Ctx:
    """Evaluation frame.  peer[i][j]: slot j belongs to viewer i's frame; pos[i]: dense
    position of slot i among its own peers in frame order; present[i].
    `before[i][j]`: j precedes i in frame order (used to derive positions lazily)."""

    def __init__(self, present, peer, ordkey):
        self.n = len(present)
        self.present = present
        self.peer = peer
        self.ordkey = ordkey  # list of Int terms; frame order among peers
        self._pos = None
        self._cnt = None

    @staticmethod
    def whole(rel: Rel):
        n = rel.n
        peer = [[rel.present[j] for j in range(n)] for _ in range(n)]
        return Ctx(rel.present, peer, rel.ok)

    @staticmethod
    def grouped(rel: Rel, keycols, ordkey=None):
        """peers = present rows with null-safe equal key tuple."""
        n = rel.n
        peer = [
            [
                And(rel.present[j], keys_eq([kc[i] for kc in keycols], [kc[j] for kc in keycols])) if i != j else rel.present[j]
                for j in range(n)
            ]
            for i in range(n)
        ]
        return Ctx(rel.present, peer, ordkey if ordkey is not None else rel.ok)

    def with_order(self, ordkey):
        return Ctx(self.present, self.peer, ordkey)

    @property
    def pos(self):
        if self._pos is None:
            n = self.n
            self._pos = [
                isum(b2i(And(self.peer[i][j], self.ordkey[j] < self.ordkey[i])) for j in range(n) if j != i)
                for i in range(n)
            ]
        return self._pos

    @property
    def count(self):
        if self._cnt is None:
            self._cnt = [isum(b2i(self.peer[i][j]) for j in range(self.n)) for i in range(self.n)]
        return self._cnt

    def sort_rank(self, keys, stable=True, tiebreak_ok=None):
        """Dense rank of each slot among its peers when peers are sorted by `keys`
        (ties by frame order if stable, else by tiebreak_ok terms)."""
        n = self.n
        tb = self.ordkey if stable else tiebreak_ok
        res = []
        for i in range(n):
            terms = []
            for j in range(n):
                if j == i:
                    continue
                terms.append(b2i(And(self.peer[i][j], lex_before(keys, j, i, tb[j] < tb[i]))))
            res.append(isum(terms))
        return res


def gather(ctx: Ctx, cells, src_pos, want_pos, default_fn=None):
    """res[i] = cells[j] for the peer j of i with src_pos[j] == want_pos[i];
    default (null) if there is none."""
    n = ctx.n
    out = []
    for i in range(n):
        ty = cells[i].ty
        dflt = default_fn(i) if default_fn else null_of(ty)
        cases = [(And(ctx.peer[i][j], src_pos[j] == want_pos[i]), cells[j]) for j in range(n)]
        out.append(c_select(cases, dflt))
    return out


def agg(ctx: Ctx, kind, cells, *, empty="null"):
    """Aggregate over peers.  kind: sum/min/max/mean/count/any/all/len/first.
    `empty`: what sum/any/all give when no non-null input: 'null' | 'zero'
    (Polars sum -> 0, any -> False, all -> True)."""
    n = ctx.n
    out = []
    if kind == "len":
        return [Cell(INT, FALSE, ctx.count[i]) for i in range(n)]
    ty = common_ty([c.ty for c in cells])
    cells = [as_ty(c, ty) for c in cells]
    for i in range(n):
        nn = [And(ctx.peer[i][j], Not(cells[j].null)) for j in range(n)]  # contributes
        cnt = isum(b2i(x) for x in nn)
        none = cnt == 0
        if kind == "count":
            out.append(Cell(INT, FALSE, cnt))
            continue
        if ty == NULLT:
            if kind == "sum" and empty == "zero":
                out.append(Cell(INT, FALSE, z3.IntVal(0)))
            else:
                out.append(null_of(NULLT))
            continue
        if kind == "sum":
            vty = INT if ty == BOOL else ty
            zero = zdefault(vty)
            vals = [If(nn[j], b2i(cells[j].val) if ty == BOOL else cells[j].val, zero) for j in range(n)]
            s = z3.Sum(vals) if len(vals) > 1 else vals[0]
            out.append(Cell(vty, none if empty == "null" else FALSE, s))
        elif kind == "mean":
            vals = [If(nn[j], as_ty(cells[j], REAL).val, z3.RealVal(0)) for j in range(n)]
            s = z3.Sum(vals) if len(vals) > 1 else vals[0]
            out.append(Cell(REAL, none, If(none, z3.RealVal(0), s / z3.ToReal(If(none, z3.IntVal(1), cnt)))))
        elif kind in ("min", "max"):
            res = Cell(ty, TRUE, zdefault(ty))
            for j in range(n):
                better = _val_cmp("<" if kind == "min" else ">", ty, cells[j].val, res.val)
                take = And(nn[j], Or(res.null, better))
                res = Cell(ty, And(res.null, Not(nn[j])), If(take, cells[j].val, res.val))
            out.append(res)
        elif kind in ("any", "all"):
            bc = [_as_bool(c) for c in cells]
            if kind == "any":
                v = Or(*[And(nn[j], bc[j].val) for j in range(n)])
            else:
                v = And(*[Or(Not(nn[j]), bc[j].val) for j in range(n)])
            out.append(Cell(BOOL, none if empty == "null" else FALSE, v))
        elif kind == "first":
            cases = [(And(ctx.peer[i][j], ctx.pos[j] == 0), cells[j]) for j in range(n)]
            out.append(c_select(cases, null_of(ty)))
        else:
            raise Unsupported(f"aggregate {kind}")
    return out


def shift(ctx: Ctx, cells, by: int, fill=None):
    """res at position p = input at position p - by (peers, frame order)."""
    want = [ctx.pos[i] - by for i in range(ctx.n)]
    ty = common_ty([c.ty for c in cells] + ([fill[0].ty] if fill else []))
    cells = [as_ty(c, ty) for c in cells]
    dflt = (lambda i: as_ty(fill[i], ty)) if fill else (lambda i: null_of(ty))
    return gather(ctx, cells, ctx.pos, want, dflt)


def cum_sum(ctx: Ctx, cells, *, null_at_null=True):
    """Running sum over peers up to and including own position, skipping nulls.
    null_at_null: result is null where the input is null (Polars cum_sum)."""
    n = ctx.n
    ty = common_ty([c.ty for c in cells])
    if ty == BOOL:
        cells = [as_ty(c, INT) for c in cells]
        ty = INT
    out = []
    for i in range(n):
        incl = [And(ctx.peer[i][j], Not(cells[j].null), ctx.pos[j] <= ctx.pos[i]) for j in range(n)]
        vals = [If(incl[j], cells[j].val, zdefault(ty)) for j in range(n)]
        s = z3.Sum(vals) if len(vals) > 1 else vals[0]
        if null_at_null:
            nl = cells[i].null
        else:
            nl = Not(Or(*incl))
        out.append(Cell(ty, nl, s))
    return out


def forward_fill(ctx: Ctx, cells):
    """Each null replaced by the last non-null value at an earlier position."""
    n = ctx.n
    out = []
    for i in range(n):
        ty = cells[i].ty
        cases = []
        for j in range(n):
            later_nonnull = Or(
                *[
                    And(ctx.peer[i][k], Not(cells[k].null), ctx.pos[k] > ctx.pos[j], ctx.pos[k] <= ctx.pos[i])
                    for k in range(n)
                    if k != j
                ]
            )
            cases.append((And(ctx.peer[i][j], Not(cells[j].null), ctx.pos[j] <= ctx.pos[i], Not(later_nonnull)), cells[j]))
        out.append(c_select(cases, null_of(ty)))
    return out


def rank(ctx: Ctx, keys, method):
    """SQL-style rank over peers ordered by `keys` (list of SortKey).
    method 'min': 1 + number of peers strictly before; 'dense': number of distinct key
    tuples strictly before + 1; 'row_number': needs total order (ties by frame order)."""
    n = ctx.n
    out = []
    for i in range(n):
        if method == "min":
            v = 1 + isum(b2i(And(ctx.peer[i][j], lex_before(keys, j, i))) for j in range(n) if j != i)
        elif method == "dense":
            terms = []
            for j in range(n):
                if j == i:
                    continue
                # j is the first slot (lowest index) of its tie class among peers
                first = Not(Or(*[And(ctx.peer[i][k], lex_tie(keys, k, j)) for k in range(j)]))
                terms.append(b2i(And(ctx.peer[i][j], lex_before(keys, j, i), first)))
            v = 1 + isum(terms)
        else:
            raise Unsupported(method)
        out.append(Cell(INT, FALSE, v))
    return out


# --------------------------------------------------------------------------------------
# table-level operations


def rel_filter(rel: Rel, keep):
    r = rel.copy()
    r.present = [And(p, k) for p, k in zip(rel.present, keep, strict=True)]
    return r


def rel_sort(rel: Rel, keys, *, stable=True):
    """New order keys: dense rank under (keys, then old order if stable, else fresh
    symbolic tie-breakers = 'any order among ties')."""
    n = rel.n
    if stable:
        tb = rel.ok
        extra = []
    else:
        tb = [fresh("tie", z3.IntSort()) for _ in range(n)]
        extra = [tb[i] != tb[j] for i in range(n) for j in range(i + 1, n)]
    ok = []
    for i in range(n):
        ok.append(
            isum(
                b2i(And(rel.present[j], lex_before(keys, j, i, tb[j] < tb[i])))
                for j in range(n)
                if j != i
            )
        )
    r = rel.copy()
    r.ok = ok
    return r, extra


def rel_slice(rel: Rel, offset: int, length):
    pos = rel.dense_pos()
    keep = [And(pos[i] >= offset, pos[i] < offset + length) if length is not None else pos[i] >= offset for i in range(rel.n)]
    return rel_filter(rel, keep)


def unspecified_order(n):
    """Fresh order keys: the engine may produce any order."""
    ok = [fresh("ord", z3.IntSort()) for _ in range(n)]
    return ok, [ok[i] != ok[j] for i in range(n) for j in range(i + 1, n)]


def group_leaders(rel: Rel, keycols):
    """present flags of the group-by output: a slot survives iff it is the first present
    slot with its key tuple."""
    n = rel.n
    out = []
    for i in range(n):
        dup = Or(
            *[
                And(rel.present[j], keys_eq([kc[i] for kc in keycols], [kc[j] for kc in keycols]))
                for j in range(i)
            ]
        )
        out.append(And(rel.present[i], Not(dup)))
    return out


def rel_concat(a: Rel, b: Rel):
    assert a.names == b.names
    data = {}
    for nme in a.names:
        ty = common_ty([c.ty for c in a.data[nme] + b.data[nme]])
        data[nme] = [as_ty(c, ty) for c in a.data[nme] + b.data[nme]]
    # a's rows first, then b's (callers override order if unspecified)
    na = a.n
    ca = count_present(a)
    ok = a.dense_pos() + [ca + p for p in b.dense_pos()]
    return Rel(a.names, data, a.present + b.present, ok), na


def rel_distinct(rel: Rel):
    cols = [rel.data[nme] for nme in rel.names]
    r = rel.copy()
    r.present = group_leaders(rel, cols)
    return r


def rel_product(a: Rel, b: Rel):
    """All pairs; slot index i*nb + j.  Column names must be disjoint."""
    assert not set(a.data) & set(b.data), (a.data.keys(), b.data.keys())
    na, nb = a.n, b.n
    data = {}
    for k, v in a.data.items():
        data[k] = [v[i] for i in range(na) for _ in range(nb)]
    for k, v in b.data.items():
        data[k] = [v[j] for _ in range(na) for j in range(nb)]
    present = [And(a.present[i], b.present[j]) for i in range(na) for j in range(nb)]
    pa, pb = a.dense_pos(), b.dense_pos()
    ok = [pa[i] * nb + pb[j] for i in range(na) for j in range(nb)]
    return Rel(a.names + b.names, data, present, ok)


def rel_join(a: Rel, b: Rel, on_fn, how):
    """on_fn(product_rel) -> list of Bool (predicate true) per product slot.
    how: inner / left / full.  Output slots: na*nb pairs, then na left-padding slots,
    then nb right-padding slots.  Output order unspecified (callers decide)."""
    prod = rel_product(a, b)
    match = on_fn(prod)
    na, nb = a.n, b.n
    present = [And(prod.present[k], match[k]) for k in range(na * nb)]
    data = {k: list(v) for k, v in prod.data.items()}
    if how in ("left", "full"):
        for i in range(na):
            unmatched = And(a.present[i], Not(Or(*[present[i * nb + j] for j in range(nb)])))
            present.append(unmatched)
            for k, v in a.data.items():
                data[k].append(v[i])
            for k, v in b.data.items():
                data[k].append(null_of(v[0].ty if v else NULLT))
    if how == "full":
        for j in range(nb):
            unmatched = And(b.present[j], Not(Or(*[present[i * nb + j] for i in range(na)])))
            present.append(unmatched)
            for k, v in a.data.items():
                data[k].append(null_of(v[0].ty if v else NULLT))
            for k, v in b.data.items():
                data[k].append(v[j])
    ok, cons = unspecified_order(len(present))
    return Rel(prod.names, data, present, ok), cons


# --------------------------------------------------------------------------------------
# equality of relations


def _cell_eq(a: Cell, b: Cell):
    try:
        return null_safe_eq(a, b)
    except Unsupported:
        # values of unrelated types (text vs date, ...) are equal only if both are null
        return And(a.null, b.null)


def _row_eq(A: Rel, i, B: Rel, j, pairs):
    return And(*[_cell_eq(A.data[ca][i], B.data[cb][j]) for ca, cb in pairs])


def _col_pairs(A: Rel, B: Rel):
    assert len(A.names) == len(B.names), (A.names, B.names)
    return list(zip(A.names, B.names, strict=True))


def multiset_eq(A: Rel, B: Rel):
    """Same multiset of rows (columns matched by position in .names)."""
    pairs = _col_pairs(A, B)
    selfA = [(a, a) for a, _ in pairs]
    selfB = [(b, b) for _, b in pairs]
    conj = []
    for i in range(A.n):
        cntA = isum(b2i(And(A.present[k], _row_eq(A, i, A, k, selfA))) for k in range(A.n))
        cntB = isum(b2i(And(B.present[k], _row_eq(A, i, B, k, pairs))) for k in range(B.n))
        conj.append(z3.Implies(A.present[i], cntA == cntB))
    for j in range(B.n):
        cntB = isum(b2i(And(B.present[k], _row_eq(B, j, B, k, selfB))) for k in range(B.n))
        cntA = isum(b2i(And(A.present[k], _row_eq(A, k, B, j, pairs))) for k in range(A.n))
        conj.append(z3.Implies(B.present[j], cntA == cntB))
    return And(*conj)


def seq_eq(A: Rel, B: Rel):
    """Same rows at the same positions."""
    pairs = _col_pairs(A, B)
    pa, pb = A.dense_pos(), B.dense_pos()
    conj = [isum(b2i(p) for p in A.present) == isum(b2i(p) for p in B.present)]
    for i in range(A.n):
        for j in range(B.n):
            conj.append(z3.Implies(And(A.present[i], B.present[j], pa[i] == pb[j]), _row_eq(A, i, B, j, pairs)))
    return And(*conj)


def count_present(rel: Rel):
    return isum(b2i(p) for p in rel.present)


def concrete_rows(rel: Rel, model_or_subs, *, ordered=True):
    """Evaluate a relation under a model (z3.ModelRef) or a substitution list; returns
    list of tuples (python values) in .names order, ordered by `ok`."""
    if isinstance(model_or_subs, z3.ModelRef):
        ev = lambda t: model_or_subs.eval(t, model_completion=True)  # noqa: E731
    else:
        ev = lambda t: z3.simplify(z3.substitute(t, *model_or_subs))  # noqa: E731
    rows = []
    for i in range(rel.n):
        if not z3.is_true(ev(rel.present[i])):
            continue
        okv = ev(rel.ok[i])
        okv = okv.as_long() if z3.is_int_value(okv) else 0
        row = []
        for nme in rel.names:
            c = rel.data[nme][i]
            if c.ty == NULLT or z3.is_true(ev(c.null)):
                row.append(None)
            else:
                row.append(pyval(ev(c.val), c.ty))
        rows.append((okv, tuple(row)))
    if ordered:
        rows.sort(key=lambda r: r[0])
    return [r for _, r in rows]
