"""REF: reference semantics of the documented pydiverse.transform API over bounded symbolic
tables (DESIGN.md Appendix A).  Written from the documentation / operator docstrings;
it imports nothing from the repository.

REF mimics the *surface* of the public API (Table attribute access, `>>`, verbs,
expression operators and methods, `C`, `when/then/otherwise`, ...) so that one template
- an ordinary Python function over a namespace `p` and source tables - can be run once
against the real library and once against REF.

Besides the result, REF produces DEF: the side conditions under which the documentation
defines a backend-independent result (section 4 of DESIGN.md)."""

from __future__ import annotations

import itertools

import z3

from . import kernel as K
from . import strings as S
from .kernel import BOOL, DATE, DT, INT, NULLT, REAL, STR, Cell, Ctx, Rel, SortKey

_colid = itertools.count(1)


class RefError(Exception):
    """REF refuses the template (it is ill-formed per the documentation)."""


class World:
    def __init__(self, str_len=4):
        self.defs = []  # (label, z3 Bool)
        self.side = []
        self.str_len = str_len

    def define(self, label, cond):
        if not z3.is_true(cond):
            self.defs.append((label, cond))


# ----------------------------------------------------------------------------------------
# expressions


class RExpr:
    __hash__ = object.__hash__

    # arithmetic
    def __add__(self, o):
        return RFn("add", self, o)

    def __radd__(self, o):
        return RFn("add", o, self)

    def __sub__(self, o):
        return RFn("sub", self, o)

    def __rsub__(self, o):
        return RFn("sub", o, self)

    def __mul__(self, o):
        return RFn("mul", self, o)

    def __rmul__(self, o):
        return RFn("mul", o, self)

    def __truediv__(self, o):
        return RFn("truediv", self, o)

    def __rtruediv__(self, o):
        return RFn("truediv", o, self)

    def __floordiv__(self, o):
        return RFn("floordiv", self, o)

    def __rfloordiv__(self, o):
        return RFn("floordiv", o, self)

    def __mod__(self, o):
        return RFn("mod", self, o)

    def __rmod__(self, o):
        return RFn("mod", o, self)

    def __neg__(self):
        return RFn("neg", self)

    def __pos__(self):
        return self

    def __abs__(self):
        return RFn("abs", self)

    # comparison
    def __eq__(self, o):
        return RFn("eq", self, o)

    def __ne__(self, o):
        return RFn("ne", self, o)

    def __lt__(self, o):
        return RFn("lt", self, o)

    def __le__(self, o):
        return RFn("le", self, o)

    def __gt__(self, o):
        return RFn("gt", self, o)

    def __ge__(self, o):
        return RFn("ge", self, o)

    # boolean
    def __and__(self, o):
        return RFn("and", self, o)

    def __rand__(self, o):
        return RFn("and", o, self)

    def __or__(self, o):
        return RFn("or", self, o)

    def __ror__(self, o):
        return RFn("or", o, self)

    def __xor__(self, o):
        return RFn("xor", self, o)

    def __rxor__(self, o):
        return RFn("xor", o, self)

    def __invert__(self):
        return RFn("not", self)

    def __bool__(self):
        raise TypeError("REF expression used as bool")

    # methods
    def abs(self):
        return RFn("abs", self)

    def is_null(self):
        return RFn("is_null", self)

    def is_not_null(self):
        return RFn("is_not_null", self)

    def fill_null(self, v):
        return RFn("fill_null", self, v)

    def is_in(self, *vals):
        return RFn("is_in", self, *vals)

    def clip(self, lo, hi):
        return RFn("clip", self, lo, hi)

    def round(self, decimals=0):
        return RFn("round", self, decimals)

    def floor(self):
        return RFn("floor", self)

    def ceil(self):
        return RFn("ceil", self)

    def cast(self, ty, *, strict=True):
        return RCast(self, ty)

    def map(self, mapping, *, default=None):
        cases = []
        for k, v in mapping.items():
            ks = k if isinstance(k, (tuple, list)) else (k,)
            cases.append((RFn("is_in", self, *ks), v))
        return RCase(cases, self if default is None else default)

    # aggregates / windows
    def _agg(self, name, **kw):
        return RFn(name, self, **kw)

    def sum(self, **kw):
        return self._agg("sum", **kw)

    def mean(self, **kw):
        return self._agg("mean", **kw)

    def min(self, **kw):
        return self._agg("min", **kw)

    def max(self, **kw):
        return self._agg("max", **kw)

    def any(self, **kw):
        return self._agg("any", **kw)

    def all(self, **kw):
        return self._agg("all", **kw)

    def count(self, **kw):
        return self._agg("count", **kw)

    def shift(self, n, fill_value=None, **kw):
        return RFn("shift", self, n, fill_value, **kw)

    def cum_sum(self, **kw):
        return RFn("cum_sum", self, **kw)

    # ordering markers
    def descending(self):
        return RFn("descending", self)

    def ascending(self):
        return RFn("ascending", self)

    def nulls_first(self):
        return RFn("nulls_first", self)

    def nulls_last(self):
        return RFn("nulls_last", self)

    @property
    def str(self):
        return _StrNS(self)

    @property
    def dt(self):
        return _DtNS(self)


class _DtNS:
    def __init__(self, e):
        self.e = e

    def __getattr__(self, name):
        if name in ("year", "month", "day", "hour", "minute", "second", "day_of_week", "day_of_year"):
            return lambda: RFn("dt." + name, self.e)
        raise RefError(f"REF: dt.{name} not modelled")


class _StrNS:
    def __init__(self, e):
        self.e = e

    def len(self):
        return RFn("str.len", self.e)

    def upper(self):
        return RFn("str.upper", self.e)

    def lower(self):
        return RFn("str.lower", self.e)

    def strip(self):
        return RFn("str.strip", self.e)

    def starts_with(self, p):
        return RFn("str.starts_with", self.e, p)

    def ends_with(self, p):
        return RFn("str.ends_with", self.e, p)

    def contains(self, p, allow_regex=False, true_if_regex_unsupported=False):
        if allow_regex:
            raise RefError("regex contains is outside REF")
        return RFn("str.contains", self.e, p)

    def replace_all(self, a, b):
        return RFn("str.replace_all", self.e, a, b)

    def slice(self, offset, n):
        return RFn("str.slice", self.e, offset, n)

    def to_date(self):
        return RFn("str.to_date", self.e)

    def to_datetime(self):
        return RFn("str.to_datetime", self.e)


class RCol(RExpr):
    def __init__(self, colid, name, owner):
        self.colid = colid
        self.name = name
        self.owner = owner


class RName(RExpr):
    def __init__(self, name):
        self.name = name


class RLit(RExpr):
    def __init__(self, v):
        self.v = v


class RFn(RExpr):
    def __init__(self, op, *args, **kw):
        self.op = op
        self.args = [wrap(a) for a in args]
        self.kw = kw


class RCast(RExpr):
    def __init__(self, e, ty):
        self.e = wrap(e)
        self.ty = ty


class RCase(RExpr):
    def __init__(self, cases, default):
        self.cases = [(wrap(c), wrap(v)) for c, v in cases]
        self.default = wrap(default) if default is not None else None

    def when(self, cond):
        return _When(self.cases, cond)

    def otherwise(self, v):
        return RCase(self.cases, v)


class _When:
    def __init__(self, cases, cond):
        self.cases = cases
        self.cond = cond

    def then(self, v):
        return RCase(self.cases + [(self.cond, v)], None)


def wrap(v):
    if isinstance(v, RExpr):
        return v
    import datetime as _dt

    if v is None or isinstance(v, (bool, int, float, str, _dt.date)):
        return RLit(v)
    raise RefError(f"cannot wrap {v!r}")


class _CNS:
    def __getattr__(self, name):
        if name.startswith("__"):
            raise AttributeError(name)
        return RName(name)

    def __getitem__(self, name):
        return RName(name)


AGGS = {"sum", "mean", "min", "max", "any", "all", "count", "count_star"}
WINDOWS = {"shift", "cum_sum", "row_number", "rank", "dense_rank"}
MARKERS = {"descending", "ascending", "nulls_first", "nulls_last"}


def peel_order(e):
    """(expr, descending, nulls_last|None) from a marker chain - outermost marker wins
    for each of the two independent properties."""
    desc = None
    nl = None
    while isinstance(e, RFn) and e.op in MARKERS:
        if e.op in ("descending", "ascending") and desc is None:
            desc = e.op == "descending"
        if e.op in ("nulls_first", "nulls_last") and nl is None:
            nl = e.op == "nulls_last"
        e = e.args[0]
    return e, bool(desc), nl


# ----------------------------------------------------------------------------------------
# tables


class RTable:
    def __init__(self, world: World, name, present, ok, cols, visible, group=(), order_keys=(), ordered=True, origins=None):
        object.__setattr__(self, "_w", world)
        self._name = name
        self._present = list(present)
        self._ok = list(ok)
        self._cols = dict(cols)  # colid -> list[Cell]
        self._visible = list(visible)  # (name, colid)
        self._group = list(group)
        self._order_keys = list(order_keys)  # SortKey list (priority order); meaningful iff _ordered
        self._ordered = ordered  # False: row order unspecified
        self._origins = set(origins or ())
        self._order_fixed = True  # column order fixed by the documentation

    @staticmethod
    def source(world, name, sym: K.SymInput):
        cols, vis = {}, []
        for c in sym.rel.names:
            cid = next(_colid)
            cols[cid] = sym.rel.data[c]
            vis.append((c, cid))
        t = RTable(world, name, sym.rel.present, sym.rel.ok, cols, vis, origins={name})
        return t

    def _clone(self, **kw):
        t = RTable(
            self._w, self._name, self._present, self._ok, self._cols, self._visible, self._group, self._order_keys,
            self._ordered, self._origins,
        )  # fmt: skip
        t._order_fixed = self._order_fixed
        for k, v in kw.items():
            setattr(t, k, v)
        return t

    @property
    def n(self):
        return len(self._present)

    # public-API surface
    def __getattr__(self, name):
        if name.startswith("_"):
            raise AttributeError(name)
        return self[name]

    def __getitem__(self, name):
        if isinstance(name, RName):
            name = name.name
        if isinstance(name, RCol):
            # derived[t.x]: the same column under its current name
            for nme, cid in self._visible:
                if cid == name.colid:
                    return RCol(cid, nme, self)
            raise RefError(f"column {name.name} is not visible in the table")
        for nme, cid in self._visible:
            if nme == name:
                return RCol(cid, nme, self)
        raise RefError(f"no visible column {name}")

    def __iter__(self):
        return iter([RCol(cid, nme, self) for nme, cid in self._visible])

    def __len__(self):
        return len(self._visible)

    def __contains__(self, x):
        if isinstance(x, str):
            return any(n == x for n, _ in self._visible)
        if isinstance(x, RName):
            return any(n == x.name for n, _ in self._visible)
        if isinstance(x, RCol):
            return any(c == x.colid for _, c in self._visible)
        return False

    def __rshift__(self, verb):
        return verb(self)

    def _names(self):
        return [n for n, _ in self._visible]

    def _rel(self, colids=None):
        """kernel Rel over (a subset of) the in-scope columns, physical name = str(colid)"""
        colids = list(self._cols) if colids is None else colids
        return Rel([str(c) for c in colids], {str(c): self._cols[c] for c in colids}, self._present, self._ok)

    def _out(self):
        """visible part as a kernel Rel with the visible names."""
        return Rel(self._names(), {n: self._cols[c] for n, c in self._visible}, self._present, self._ok)

    # ---- DEF helpers
    def _require_total_order(self, why):
        """positions of rows matter: the order must be specified and - if it comes from
        arrange keys - the keys must be total on the present rows."""
        w = self._w
        if not self._ordered:
            w.define(f"{why}: row order unspecified", K.FALSE)
            return
        if self._order_keys:
            n = self.n
            for i in range(n):
                for j in range(i + 1, n):
                    w.define(
                        f"{why}: arrange keys total",
                        z3.Implies(K.And(self._present[i], self._present[j]), K.Not(K.lex_tie(self._order_keys, i, j))),
                    )

    # ---- expression evaluation
    def _resolve(self, e: RExpr):
        if isinstance(e, RName):
            return self[e.name].colid
        if isinstance(e, RCol):
            if e.colid not in self._cols:
                raise RefError(f"column {e.name} not in scope")
            return e.colid
        raise RefError("not a column")

    def _ev(self, e, mode="row"):
        """list[Cell] per slot.  mode: row | summ"""
        w = self._w
        n = self.n
        e = wrap(e)
        if isinstance(e, (RCol, RName)):
            return list(self._cols[self._resolve(e)])
        if isinstance(e, RLit):
            return [K.lit(e.v)] * n
        if isinstance(e, RCast):
            return [self._cast(c, e.ty) for c in self._ev(e.e, mode)]
        if isinstance(e, RCase):
            cases = [(self._ev(c, mode), self._ev(v, mode)) for c, v in e.cases]
            dflt = self._ev(e.default, mode) if e.default is not None else [K.lit(None)] * n
            return [K.c_select([(K.is_true(c[i]), v[i]) for c, v in cases], dflt[i]) for i in range(n)]
        assert isinstance(e, RFn), e
        op = e.op
        if op in MARKERS:
            raise RefError("ordering marker outside arrange")
        if op in AGGS or op in WINDOWS:
            return self._ev_ctx_fn(e, mode)
        a = [self._ev(x, mode) for x in e.args]
        P = self._present
        if op in ("add", "sub", "mul"):
            o = {"add": "+", "sub": "-", "mul": "*"}[op]
            return [K.arith(o, a[0][i], a[1][i]) for i in range(n)]
        if op in ("truediv", "floordiv", "mod"):
            for i in range(n):
                d = a[1][i]
                if d.ty != NULLT:
                    w.define(f"{op}: divisor non-zero", z3.Implies(K.And(P[i], K.Not(d.null)), d.val != 0))
            if op == "truediv":
                return [K.truediv(a[0][i], a[1][i]) for i in range(n)]
            # documented: // truncates toward zero, % takes the sign of the dividend
            kind = "truncdiv" if op == "floordiv" else "truncmod"
            return [K.int_binop(kind, a[0][i], a[1][i]) for i in range(n)]
        if op == "neg":
            return [K.neg(c) for c in a[0]]
        if op == "abs":
            return [K.c_abs(c) for c in a[0]]
        cmpops = {"eq": "==", "ne": "!=", "lt": "<", "le": "<=", "gt": ">", "ge": ">="}
        if op in cmpops:
            return [K.compare(cmpops[op], a[0][i], a[1][i]) for i in range(n)]
        if op == "and":
            return [K.k_and(a[0][i], a[1][i]) for i in range(n)]
        if op == "or":
            return [K.k_or(a[0][i], a[1][i]) for i in range(n)]
        if op == "xor":
            return [K.k_xor(a[0][i], a[1][i]) for i in range(n)]
        if op == "not":
            return [K.k_not(c) for c in a[0]]
        if op == "is_null":
            return [K.is_null(c) for c in a[0]]
        if op == "is_not_null":
            return [K.k_not(K.is_null(c)) for c in a[0]]
        if op == "fill_null":
            return [K.coalesce([a[0][i], a[1][i]]) for i in range(n)]
        if op == "coalesce":
            return [K.coalesce([x[i] for x in a]) for i in range(n)]
        if op in ("hmax", "hmin"):
            return [K.h_extreme(op[1:], [x[i] for x in a]) for i in range(n)]
        if op in ("hsum", "hany", "hall"):
            f = {"hsum": lambda x, y: K.arith("+", x, y), "hany": K.k_or, "hall": K.k_and}[op]
            out = []
            for i in range(n):
                r = a[0][i]
                for x in a[1:]:
                    r = f(r, x[i])
                out.append(r)
            return out
        if op == "is_in":
            out = []
            for i in range(n):
                r = K.from_bool(K.FALSE)
                for x in a[1:]:
                    r = K.k_or(r, K.compare("==", a[0][i], x[i]))
                out.append(r)
            return out
        if op == "clip":
            out = []
            for i in range(n):
                x, lo, hi = a[0][i], a[1][i], a[2][i]
                # docstring: for non-null x equivalent to pdt.max(pdt.min(x, hi), lo); the horizontal min / max
                # skip nulls, so a null bound is no bound
                ty, (x, lo, hi) = K.unify([x, lo, hi])
                v = K.If(K.And(K.Not(hi.null), K._val_cmp(">", ty, x.val, hi.val)), hi.val, x.val)
                v = K.If(K.And(K.Not(lo.null), K._val_cmp("<", ty, v, lo.val)), lo.val, v)
                out.append(Cell(ty, x.null, v))
            return out
        if op == "round":
            d = e.args[1].v
            out = []
            for i in range(n):
                c = a[0][i]
                if c.ty == REAL:
                    s = z3.RealVal(10**d) if d >= 0 else 1 / z3.RealVal(10 ** (-d))
                    x2 = c.val * s * 2
                    tie = K.And(z3.IsInt(x2), K.Not(z3.IsInt(c.val * s)))
                    w.define("round: not a tie", z3.Implies(K.And(P[i], K.Not(c.null)), K.Not(tie)))
                out.append(S.round_half(c, d))
            return out
        if op in ("floor", "ceil"):
            out = []
            for c in a[0]:
                if c.ty in (INT, NULLT):
                    out.append(c)
                elif op == "floor":
                    out.append(Cell(REAL, c.null, z3.ToReal(z3.ToInt(c.val))))
                else:
                    out.append(Cell(REAL, c.null, -z3.ToReal(z3.ToInt(-c.val))))
            return out
        if op.startswith("str."):
            return self._ev_str(op[4:], e, a)
        if op.startswith("dt."):
            fld = op[3:]
            for c in a[0]:
                if c.ty not in (DATE, DT, NULLT) or (c.ty == DATE and fld in ("hour", "minute", "second")):
                    raise RefError(f"REF: dt.{fld} on {c.ty}")
            return [K.temporal_field(c, fld) for c in a[0]]
        raise RefError(f"REF: unknown op {op}")

    def _ev_str(self, op, e, a):
        w = self._w
        n = self.n
        L = w.str_len
        P = self._present
        x = a[0]
        if op == "len":
            return [Cell(INT, c.null, z3.Length(c.val)) if c.ty == STR else K.null_of(INT) for c in x]
        if op in ("upper", "lower"):
            return [S.change_case(c, op == "upper", L) for c in x]
        if op == "strip":
            for i in range(n):
                c = x[i]
                if c.ty == STR:
                    # whitespace other than ' ' at either end: engines disagree (documented as plain "strip")
                    ws = z3.Union(*[z3.Re(z3.StringVal(ch)) for ch in S.POLARS_WS[1:]])
                    anyc = z3.Full(z3.ReSort(z3.StringSort()))
                    w.define("strip: only blanks", z3.Implies(K.And(P[i], K.Not(c.null)), K.Not(z3.InRe(c.val, z3.Concat(anyc, ws, anyc)))))
            return [S.strip_ws(c, L, S.SQLITE_TRIM, side=w.side) for c in x]
        if op in ("starts_with", "ends_with", "contains"):
            fn = {"starts_with": z3.PrefixOf, "ends_with": z3.SuffixOf, "contains": lambda p, s: z3.Contains(s, p)}[op]
            out = [S.str_pred(x[i], a[1][i], fn) for i in range(n)]
            pat = e.args[1].v if isinstance(e.args[1], RLit) else None
            if isinstance(pat, str):
                # same-case assumption (DESIGN 4.6 / C18): case-insensitive matching
                # must not change the answer
                esc = "".join("/" + ch if ch in "%_/" else ch for ch in pat)
                lp = {"starts_with": esc + "%", "ends_with": "%" + esc, "contains": "%" + esc + "%"}[op]
                rx = S.like_regex(lp, "/", case_insensitive=True)
                for i in range(n):
                    c = x[i]
                    if c.ty == STR:
                        w.define(
                            f"{op}: case-insensitive match agrees",
                            z3.Implies(K.And(P[i], K.Not(c.null)), z3.InRe(c.val, rx) == out[i].val),
                        )
            return out
        if op == "replace_all":
            pat, rep = e.args[1].v, e.args[2].v
            return [S.replace_all_literal(c, pat, rep, L) for c in x]
        if op in ("to_date", "to_datetime"):
            try:
                return [S.parse_temporal_const(c, DATE if op == "to_date" else DT) for c in x]
            except K.Unsupported as ex:
                raise RefError(f"REF: {ex}") from ex
        if op == "slice":
            off, ln = e.args[1].v, e.args[2].v
            return [Cell(STR, c.null, z3.SubString(c.val, off, ln)) for c in x]
        raise RefError(f"REF: unknown string op {op}")

    def _cast(self, c: Cell, ty):
        w = self._w
        tgt = ty if isinstance(ty, str) else getattr(ty, "_ref_ty", None)
        if tgt is None:
            raise RefError(f"REF: cast target {ty}")
        if c.ty == NULLT:
            return K.null_of(tgt)
        if c.ty == tgt:
            return c
        if tgt == INT:
            if c.ty == BOOL:
                return K.as_ty(c, INT)
            if c.ty == REAL:
                return Cell(INT, c.null, K.If(c.val >= 0, z3.ToInt(c.val), -z3.ToInt(-c.val)))
            if c.ty == STR:
                w.define("cast str->int: plain numeral", z3.Implies(K.Not(c.null), S.is_plain_numeral(c.val)))
                return S.str_to_int(c)
        if tgt == REAL and c.ty in (INT, BOOL):
            return K.as_ty(c, REAL)
        # documented: Datetime -> Date removes the time component; Date -> Datetime is the
        # (implicit) conversion to midnight; text forms YYYY-MM-DD / YYYY-MM-DD HH:MM:SS.SSSSSS
        if tgt == DATE and c.ty == DT:
            return K.dt_to_date(c)
        if tgt == DT and c.ty == DATE:
            return K.date_to_dt(c)
        if tgt == STR and c.ty == DATE:
            return S.date_to_str(c)
        if tgt == STR and c.ty == DT:
            return S.dt_to_str(c)
        if tgt == STR and c.ty == INT:
            return S.int_to_str(c)
        if tgt == STR and c.ty == REAL:
            # documented: decimal notation; defined here for quarter-dyadic values (x*4 integral)
            w.define("cast float->str: quarter-dyadic value", z3.Implies(K.Not(c.null), z3.IsInt(c.val * 4)))
            return S.real_to_str(c)
        raise RefError(f"REF: cast {c.ty}->{tgt} not modelled")

    def _order_spec(self, arrange, mode):
        """list of SortKey from an `arrange=` / arrange() argument list (+ DEF: keys
        without a nulls marker are non-null)."""
        keys = []
        for o in arrange:
            o = wrap(o)
            ex, desc, nl = peel_order(o)
            cells = self._ev(ex, mode)
            if nl is None:
                for i in range(self.n):
                    self._w.define("order key without nulls marker is non-null", z3.Implies(self._present[i], K.Not(cells[i].null)))
                nl = False
            keys.append(SortKey(cells, desc, nl))
        return keys

    def _ev_ctx_fn(self, e: RFn, mode):
        w = self._w
        n = self.n
        op = e.op
        kw = e.kw
        rel = self._rel()
        # partition
        if "partition_by" in kw and kw["partition_by"] is not None:
            pb = kw["partition_by"]
            pb = pb if isinstance(pb, (list, tuple)) else [pb]
            pcols = [self._ev(x, "row") for x in pb]
            explicit_part = True
        else:
            pcols = [self._cols[c] for c in self._group]
            explicit_part = False
        if mode == "summ" and op in WINDOWS:
            raise RefError("window function in summarize")
        ctx = Ctx.grouped(rel, pcols) if pcols else Ctx.whole(rel)
        # arguments are evaluated row-wise (they may not contain further aggregates in REF's subset)
        filt = kw.get("filter")
        fcells = self._ev(filt, "row") if filt is not None else None

        def restrict(cells):
            if fcells is None:
                return cells
            return [K.c_ite(K.is_true(fcells[i]), cells[i], K.null_of(cells[i].ty)) for i in range(n)]

        if op in AGGS:
            if op == "count_star" or (op == "count" and not e.args):
                if fcells is not None:
                    ones = [K.c_ite(K.is_true(fcells[i]), K.lit(1), K.null_of(INT)) for i in range(n)]
                    return K.agg(ctx, "count", ones)
                return K.agg(ctx, "len", [None] * n)
            x = restrict(self._ev(e.args[0], "row"))
            if op == "count":
                return K.agg(ctx, "count", x)
            return K.agg(ctx, op, x, empty="null")
        # window functions
        arr = kw.get("arrange")
        if arr is not None:
            arr = arr if isinstance(arr, (list, tuple)) else [arr]
            keys = self._order_spec(arr, "row")
        else:
            keys = None
        if op in ("rank", "dense_rank"):
            if keys is None:
                raise RefError("rank needs arrange")
            return K.rank(ctx, keys, "min" if op == "rank" else "dense")
        # position-dependent functions: need a total order inside each partition
        if keys is not None:
            for i in range(n):
                for j in range(i + 1, n):
                    w.define(
                        f"{op}: arrange= keys total within partition",
                        z3.Implies(K.And(self._present[i], self._present[j], ctx.peer[i][j]), K.Not(K.lex_tie(keys, i, j))),
                    )
            octx = ctx.with_order(ctx.sort_rank(keys, stable=True))
        else:
            self._require_total_order(f"{op} without arrange=")
            octx = ctx
        if op == "row_number":
            return [Cell(INT, K.FALSE, octx.pos[i] + 1) for i in range(n)]
        if op == "shift":
            x = self._ev(e.args[0], "row")
            by = e.args[1].v
            fill = None if (isinstance(e.args[2], RLit) and e.args[2].v is None) else self._ev(e.args[2], "row")
            return K.shift(octx, x, by, fill)
        if op == "cum_sum":
            x = self._ev(e.args[0], "row")
            # running sum ignoring nulls; a null row receives the sum of the preceding rows
            return K.cum_sum(octx, x, null_at_null=False)
        raise RefError(f"REF: window {op}")


# ----------------------------------------------------------------------------------------
# verbs (return callables applied by >>)


def _colarg(t: RTable, c):
    if isinstance(c, str):
        c = RName(c)
    return t._resolve(c)


def select(*cols):
    def f(t: RTable):
        ids = [_colarg(t, c) for c in cols]
        vis = dict((cid, n) for n, cid in t._visible)
        for cid in ids:
            if cid not in vis:
                raise RefError("select of hidden column")
        return t._clone(_visible=[(vis[cid], cid) for cid in ids], _order_fixed=True)

    return f


def drop(*cols):
    def f(t: RTable):
        ids = {_colarg(t, c) for c in cols}
        return t._clone(_visible=[(n, c) for n, c in t._visible if c not in ids])

    return f


def rename(name_map):
    def f(t: RTable):
        m = {}
        for k, v in name_map.items():
            cid = _colarg(t, k)
            m[cid] = v
        vis = [(m.get(c, n), c) for n, c in t._visible]
        if len({n for n, _ in vis}) != len(vis):
            raise RefError("rename produces duplicate names")
        return t._clone(_visible=vis)

    return f


def mutate(**kw):
    def f(t: RTable):
        new = {}
        for name, e in kw.items():
            new[name] = (next(_colid), t._ev(e, "row"))
        cols = dict(t._cols)
        vis = list(t._visible)
        fixed = t._order_fixed
        for name, (cid, cells) in new.items():
            cols[cid] = cells
            if any(n == name for n, _ in vis):
                vis = [(n, c) for n, c in vis if n != name]
                fixed = False
            vis.append((name, cid))
        return t._clone(_cols=cols, _visible=vis, _order_fixed=fixed)

    return f


def filter(*preds):  # noqa: A001
    def f(t: RTable):
        keep = [K.TRUE] * t.n
        for p in preds:
            c = t._ev(p, "row")
            keep = [K.And(keep[i], K.is_true(c[i])) for i in range(t.n)]
        return t._clone(_present=[K.And(t._present[i], keep[i]) for i in range(t.n)])

    return f


def arrange(*by):
    def f(t: RTable):
        keys = t._order_spec(by, "row")
        rel = Rel([], {}, t._present, t._ok)
        if not t._ordered:
            # previous order unspecified: ties among the new keys stay unspecified
            out, extra = K.rel_sort(rel, keys, stable=False)
            t._w.side += extra
            return t._clone(_ok=out.ok, _order_keys=keys, _ordered=True, _tie_unspec=True)
        out, _ = K.rel_sort(rel, keys, stable=True)
        return t._clone(_ok=out.ok, _order_keys=keys + t._order_keys, _ordered=True)

    return f


def slice_head(n, *, offset=0):
    def f(t: RTable):
        if t._group:
            raise RefError("slice_head on grouped table")
        t._require_total_order("slice_head")
        if getattr(t, "_tie_unspec", False) or not t._ordered:
            pass
        rel = K.rel_slice(Rel([], {}, t._present, t._ok), offset, n)
        return t._clone(_present=rel.present)

    return f


def group_by(*cols, add=False):
    def f(t: RTable):
        ids = []
        for c in ((t._group if add else []) + [_colarg(t, c) for c in cols]):
            if c not in ids:  # a column groups once
                ids.append(c)
        return t._clone(_group=ids)

    return f


def ungroup():
    return lambda t: t._clone(_group=[])


def summarize(**kw):
    def f(t: RTable):
        n = t.n
        gcols = [t._cols[c] for c in t._group]
        rel = t._rel()
        if t._group:
            present = K.group_leaders(Rel([], {}, t._present, t._ok), gcols)
            base = t
        else:
            # exactly one row, also for empty input: a ghost slot views all present rows
            ghost_cols = {c: v + [K.null_of(v[0].ty if v else NULLT)] for c, v in t._cols.items()}
            base = t._clone(_present=t._present + [K.FALSE], _ok=t._ok + [z3.IntVal(-1)], _cols=ghost_cols)
            present = None
        cols, vis = {}, []
        names_vis = dict((c, nme) for nme, c in t._visible)
        for c in t._group:
            if names_vis.get(c) in kw:
                continue
            if c not in names_vis:
                raise RefError("summarize: a grouping column is no longer visible")
            cols[c] = t._cols[c]
            vis.append((names_vis[c], c))
        if t._group:
            for name, e in kw.items():
                cid = next(_colid)
                cols[cid] = t._ev(e, "summ")
                vis.append((name, cid))
            ok, cons = K.unspecified_order(n)
            t._w.side += cons
            return RTable(t._w, t._name, present, ok, cols, vis, group=[], ordered=False, origins=t._origins)
        # ungrouped: evaluate with the ghost viewer
        gt = base
        n1 = n + 1
        peer = [[t._present[j] if j < n else K.FALSE for j in range(n1)] for _ in range(n1)]
        gt._ghost_ctx = Ctx(gt._present, peer, gt._ok)
        for name, e in kw.items():
            cid = next(_colid)
            cells = _ev_ghost(gt, e)
            cols[cid] = [cells[n]]
            vis.append((name, cid))
        return RTable(t._w, t._name, [K.TRUE], [z3.IntVal(0)], cols, vis, group=[], ordered=True, origins=t._origins)

    return f


def _ev_ghost(gt: RTable, e):
    """evaluate a summarize expression on the ghost-extended table: aggregates use the
    ghost context (viewer n sees all present rows)."""
    e = wrap(e)
    n1 = gt.n
    if isinstance(e, RFn) and e.op in AGGS:
        ctx = gt._ghost_ctx
        filt = e.kw.get("filter")
        fcells = gt._ev(filt, "row") if filt is not None else None
        if e.op == "count_star" or (e.op == "count" and not e.args):
            if fcells is not None:
                ones = [K.c_ite(K.is_true(fcells[i]), K.lit(1), K.null_of(INT)) for i in range(n1)]
                return K.agg(ctx, "count", ones)
            return K.agg(ctx, "len", [None] * n1)
        x = gt._ev(e.args[0], "row")
        if fcells is not None:
            x = [K.c_ite(K.is_true(fcells[i]), x[i], K.null_of(x[i].ty)) for i in range(n1)]
        if e.op == "count":
            return K.agg(ctx, "count", x)
        return K.agg(ctx, e.op, x, empty="null")
    if isinstance(e, RFn):
        # element-wise function over aggregated sub-results
        sub = RFn.__new__(RFn)
        sub.op, sub.kw = e.op, e.kw
        holders = []
        for a in e.args:
            cells = _ev_ghost(gt, a)
            cid = next(_colid)
            gt._cols[cid] = cells
            holders.append(RCol(cid, f"_h{cid}", gt))
        sub.args = holders
        return gt._ev(sub, "row")
    if isinstance(e, RCase):
        def hold(x):
            cells = _ev_ghost(gt, x)
            cid = next(_colid)
            gt._cols[cid] = cells
            return RCol(cid, f"_h{cid}", gt)

        c2 = RCase([(hold(c), hold(v)) for c, v in e.cases], hold(e.default) if e.default is not None else None)
        return gt._ev(c2, "row")
    if isinstance(e, RCast):
        cells = _ev_ghost(gt, e.e)
        return [gt._cast(c, e.ty) for c in cells]
    return gt._ev(e, "row")


def alias(new_name=None, *, keep_col_refs=False):
    def f(t: RTable):
        t2 = t._clone()
        if new_name is not None:
            t2._name = new_name
        if not keep_col_refs:
            # independent table: fresh column identities, old references are cut off
            m = {cid: next(_colid) for cid in t._cols}
            t2._cols = {m[c]: v for c, v in t._cols.items()}
            t2._visible = [(n, m[c]) for n, c in t._visible]
            t2._group = [m[c] for c in t._group]
            t2._origins = {object()}
        return t2

    return f


def _join_names(left: RTable, right: RTable, on_colids, suffix):
    """documented suffix rule (join docstring)."""
    lnames = set(left._names())
    rnames = right._names()
    if suffix is not None:
        new = [n + suffix for n in rnames]
        if set(new) & lnames:
            raise RefError("user suffix collides")
        return new
    if not (set(rnames) & lnames):
        return list(rnames)
    sfx = f"_{right._name}" if right._name is not None else "_right"
    cnt = 0
    while any((n + sfx + (f"_{cnt}" if cnt else "")) in lnames for n in rnames):
        cnt += 1
    if cnt:
        sfx += f"_{cnt}"
    right_on_names = {n for n, c in right._visible if c in on_colids}
    if not ((set(rnames) - right_on_names) & lnames) and not any(n + sfx in rnames for n in rnames if n in lnames):
        return [n + sfx if n in lnames else n for n in rnames]
    return [n + sfx for n in rnames]  # also when renaming only the join columns would collide within the right table


def _collect_cols(e, acc):
    e = wrap(e)
    if isinstance(e, RCol):
        acc.add(e.colid)
    elif isinstance(e, RFn):
        for a in e.args:
            _collect_cols(a, acc)
    elif isinstance(e, RCase):
        for c, v in e.cases:
            _collect_cols(c, acc)
            _collect_cols(v, acc)
        if e.default is not None:
            _collect_cols(e.default, acc)
    elif isinstance(e, RCast):
        _collect_cols(e.e, acc)


def join(right: RTable, on, how, *, validate="m:m", suffix=None):
    def f(left: RTable):
        if left._group or right._group:
            raise RefError("join of grouped table")
        if left._origins & right._origins:
            raise RefError("self-join without alias")
        ons = on if isinstance(on, list) else [on]
        ons2 = []
        for o in ons:
            if isinstance(o, str):
                ons2.append(RFn("eq", left[o], right[o]))
            else:
                ons2.append(o)
        used = set()
        for o in ons2:
            _collect_cols(o, used)
        new_rnames = _join_names(left, right, used, suffix)
        # product over all in-scope columns of both sides
        lrel, rrel = left._rel(), right._rel()
        nb = right.n
        scope = RTable(
            left._w, None,
            [K.TRUE] * (left.n * nb), [z3.IntVal(0)] * (left.n * nb),
            {**{c: [v[i] for i in range(left.n) for _ in range(nb)] for c, v in left._cols.items()},
             **{c: [v[j] for _ in range(left.n) for j in range(nb)] for c, v in right._cols.items()}},
            [],
        )  # fmt: skip
        scope._present = [K.And(left._present[i], right._present[j]) for i in range(left.n) for j in range(nb)]
        vis_l = {n: c for n, c in left._visible}
        vis_r = {n: c for n, c in right._visible}

        def res_name(e):
            # C.x inside `on`: must be unambiguous
            if isinstance(e, RName):
                inl, inr = e.name in vis_l, e.name in vis_r
                if inl and inr:
                    raise RefError("ambiguous C. in on")
                if not (inl or inr):
                    raise RefError("unknown C. in on")
                return RCol(vis_l[e.name] if inl else vis_r[e.name], e.name, None)
            if isinstance(e, RFn):
                r = RFn.__new__(RFn)
                r.op, r.kw = e.op, e.kw
                r.args = [res_name(a) for a in e.args]
                return r
            return e

        def on_fn(prod):
            m = [K.TRUE] * scope.n
            for o in ons2:
                c = scope._ev(res_name(wrap(o)), "row")
                m = [K.And(m[k], K.is_true(c[k])) for k in range(scope.n)]
            return m

        out, cons = K.rel_join(lrel, rrel, on_fn, {"inner": "inner", "left": "left", "full": "full"}[how])
        left._w.side += cons
        cols = {int(k): v for k, v in out.data.items()}
        vis = list(left._visible) + [(nn, c) for nn, (_, c) in zip(new_rnames, right._visible, strict=True)]
        if len({n for n, _ in vis}) != len(vis):
            raise RefError("join produces duplicate names")
        t = RTable(left._w, left._name, out.present, out.ok, cols, vis, ordered=False, origins=left._origins | right._origins)
        return t

    return f


def inner_join(right, on, **kw):
    return join(right, on, "inner", **kw)


def left_join(right, on, **kw):
    return join(right, on, "left", **kw)


def full_join(right, on, **kw):
    return join(right, on, "full", **kw)


def cross_join(right, *, suffix=None):
    return join(right, [], "inner", suffix=suffix)


def union(right: RTable, *, distinct=False):
    def f(left: RTable):
        if left._group or right._group:
            raise RefError("union of grouped table")
        if set(left._names()) != set(right._names()):
            raise RefError("union: names differ")
        rmap = {n: c for n, c in right._visible}
        a = left._out()
        b = Rel(a.names, {n: right._cols[rmap[n]] for n in a.names}, right._present, right._ok)
        out, _ = K.rel_concat(a, b)
        if distinct:
            out = K.rel_distinct(out)
        ok, cons = K.unspecified_order(out.n)
        left._w.side += cons
        cols, vis = {}, []
        for n in a.names:
            cid = next(_colid)
            cols[cid] = out.data[n]
            vis.append((n, cid))
        return RTable(left._w, left._name, out.present, ok, cols, vis, ordered=False, origins=left._origins | right._origins)

    return f


# ----------------------------------------------------------------------------------------
# module-level functions of the public API


def when(cond):
    return _When([], cond)


def coalesce(*args):
    return RFn("coalesce", *args)


def _max(*args):
    return RFn("hmax", *args)


def _min(*args):
    return RFn("hmin", *args)


def _sum(*args):
    return RFn("hsum", *args)


def _any(*args):
    return RFn("hany", *args)


def _all(*args):
    return RFn("hall", *args)


def count(expr=None, **kw):
    if expr is None:
        return RFn("count_star", **kw)
    return RFn("count", expr, **kw)


def row_number(**kw):
    return RFn("row_number", **kw)


def rank(**kw):
    return RFn("rank", **kw)


def dense_rank(**kw):
    return RFn("dense_rank", **kw)


def lit(v, dtype=None):
    return RLit(v)


class _Ty:
    def __init__(self, ref_ty):
        self._ref_ty = ref_ty

    def __call__(self):
        return self


class RefAPI:
    """the namespace `p` handed to templates (REF side)."""

    C = _CNS()
    select = staticmethod(select)
    drop = staticmethod(drop)
    rename = staticmethod(rename)
    mutate = staticmethod(mutate)
    filter = staticmethod(filter)
    arrange = staticmethod(arrange)
    slice_head = staticmethod(slice_head)
    group_by = staticmethod(group_by)
    ungroup = staticmethod(ungroup)
    summarize = staticmethod(summarize)
    alias = staticmethod(alias)
    join = staticmethod(join)
    inner_join = staticmethod(inner_join)
    left_join = staticmethod(left_join)
    full_join = staticmethod(full_join)
    cross_join = staticmethod(cross_join)
    union = staticmethod(union)
    when = staticmethod(when)
    coalesce = staticmethod(coalesce)
    max = staticmethod(_max)
    min = staticmethod(_min)
    sum = staticmethod(_sum)
    any = staticmethod(_any)
    all = staticmethod(_all)
    count = staticmethod(count)
    row_number = staticmethod(row_number)
    rank = staticmethod(rank)
    dense_rank = staticmethod(dense_rank)
    lit = staticmethod(lit)
    Int64 = _Ty(INT)
    Int8 = _Ty(INT)
    Int16 = _Ty(INT)
    Int32 = _Ty(INT)
    Int = _Ty(INT)
    Float64 = _Ty(REAL)
    Float = _Ty(REAL)
    String = _Ty(STR)
    Bool = _Ty(BOOL)
    Date = _Ty(DATE)
    Datetime = _Ty(DT)
    is_ref = True

    @staticmethod
    def touch(tbl):
        """real side: export / build_query / repr the table (must not change anything)"""
        return tbl

    @staticmethod
    def colname(col):
        return col.name

    @staticmethod
    def expr_table(tbl, expr):
        """ColExpr.export: the expression as a one-column table over the table all of its
        columns live in"""
        return tbl >> mutate(x=expr) >> select(RName("x"))

    @staticmethod
    def collect(tbl, *, keep_col_refs=True):
        """collect(): same data, names, order and grouping; references stay valid"""
        if keep_col_refs:
            vis = {c for _, c in tbl._visible}
            if any(c not in vis for c in tbl._group):
                raise RefError("collect: a grouping column is no longer visible (hidden columns do not survive collect)")
            return tbl._clone()
        return alias()(tbl._clone(_group=[]))

    @staticmethod
    def transfer_col_references(table, ref_source):
        m = {name: cid for name, cid in ref_source._visible}
        if any(c not in {c2 for _, c2 in table._visible} for c in table._group):
            raise RefError("transfer_col_references: a grouping column is no longer visible")
        cols, vis = {}, []
        back = {}
        for name, cid in table._visible:
            if name not in m:
                raise RefError(f"transfer_col_references: column {name} missing in the reference source")
            cols[m[name]] = table._cols[cid]
            vis.append((name, m[name]))
            back[cid] = m[name]
        t = table._clone(_cols=cols, _visible=vis, _group=[back[c] for c in table._group if c in back])
        t._origins = set(table._origins) | set(ref_source._origins)
        return t
