"""./check <property> [--tier quick|thorough] [--replay path]

Exit status: 0 = the property held on everything explored (known findings are printed
as KNOWN-FINDING lines); 1 = a replayed violation that known_findings.json does not
list (one `VIOLATION property=<id> replay=<path>` line each); 3 = harness error (the
check itself is broken - nothing it says should be believed)."""

from __future__ import annotations

import argparse
import fnmatch
import hashlib
import importlib
import json
import multiprocessing as mp
import os
import sys
import time
import traceback

ROOT = os.path.dirname(os.path.dirname(os.path.abspath(__file__)))
# PV_OUT redirects evidence/replays (used only by tools/seedmatrix.sh, which runs the
# checks against scratch worktrees with seeded changes; the registered commands never set it)
OUT = os.environ.get("PV_OUT", ROOT)
EVIDENCE = os.path.join(OUT, "evidence")
REPLAYS = os.path.join(OUT, "replays")
KNOWN = os.path.join(ROOT, "known_findings.json")

VIOLATION_STATUSES = ("violation", "engine-error", "structural-fail")


def load_known():
    if not os.path.exists(KNOWN):
        return {"findings": [], "fixed": []}
    with open(KNOWN) as f:
        return json.load(f)


def match_known(known, pid, key):
    """a finding applies to its own property and to the properties listed under 'also'
    (checks that borrow the same templates, e.g. C01); borrowed templates carry a
    'cNN~' prefix which is ignored for matching"""
    import re

    bare = re.sub(r"^c\d+~", "", key)
    for k in known.get("findings", []):
        if (k["property"] == pid or pid in k.get("also", [])) and (
            fnmatch.fnmatchcase(key, k["key"]) or fnmatch.fnmatchcase(bare, k["key"])
        ):
            return k
    return None


# ----------------------------------------------------------------------------------------
# E1 worker pool


def _e1_worker(args):
    modname, idx, tier, seed = args
    from .e1 import Cfg, analyse

    try:
        mod = importlib.import_module(modname)
        cfg = Cfg.for_tier(tier, seed)
        tps = mod.templates(cfg)
        tp = tps[idx]
        return analyse(tp, cfg)
    except BaseException as e:  # noqa: BLE001
        return {
            "template": f"{modname}[{idx}]",
            "obligations": [
                {"template": f"{modname}[{idx}]", "kind": "worker", "status": f"harness-error:{type(e).__name__}:{e}", "seconds": 0, "detail": traceback.format_exc(), "key": ""}
            ],
            "functions": [], "constructs": [], "seconds": 0, "status": {}, "artefacts": {},
        }  # fmt: skip


def run_e1(pid, modname, tier, seed, nproc=None):
    from .e1 import Cfg

    mod = importlib.import_module(modname)
    cfg = Cfg.for_tier(tier, seed)
    tps = mod.templates(cfg)
    names = [t.name for t in tps]
    assert len(set(names)) == len(names), [n for n in names if names.count(n) > 1]
    jobs = [(modname, i, tier, seed) for i in range(len(tps))]
    nproc = nproc or min(16, max(1, len(jobs)))
    t0 = time.time()
    with mp.get_context("fork").Pool(nproc, maxtasksperchild=8) as pool:
        results = pool.map(_e1_worker, jobs, chunksize=1)
    wall = time.time() - t0
    return cfg, tps, results, wall


def _count_cross(results):
    out = {}
    for r in results:
        for q in r.get("cross_solver", []):
            for solver, verdict in q.items():
                out.setdefault(solver, {}).setdefault(verdict, 0)
                out[solver][verdict] += 1
    return out


def summarise_e1(pid, cfg, tps, results, wall, extra_assumptions=()):
    obls = [o for r in results for o in r["obligations"]]
    solver_kinds = [o for o in obls if "≡" in o["kind"]]
    discharged = [o for o in solver_kinds if o["status"] == "unsat"]
    sat_replayed = [o for o in solver_kinds if o["status"] in ("violation", "engine-error", "model-divergence", "unconfirmed-unspecified")]
    permitted_refusals = [o for o in obls if o["status"].startswith("skipped") and ":refused:" in o["status"]]
    inconclusive = [
        o
        for o in obls
        if (o["status"].startswith(("unknown", "skipped")) and o not in permitted_refusals)
        or o["status"] in ("model-divergence", "unconfirmed-unspecified", "model-mismatch")
    ]
    harness = [o for o in obls if o["status"].startswith("harness-error") or o["status"].startswith("vacuous") or o["status"].startswith("blind")]
    structural = [o for o in obls if o["status"].startswith("structural")]
    violations = []
    for r in results:
        for o in r["obligations"]:
            if o["status"] in VIOLATION_STATUSES:
                violations.append((r, o))
        # a template that REF accepts but a backend fails to compile with an internal error
        ref_ok = all(v == "ok" for k, v in r.get("status", {}).items() if k.startswith("ref"))
        for be, st in r.get("status", {}).items():
            if ref_ok and isinstance(st, str) and (st.startswith("error:") or st.startswith("parse-error:")):
                violations.append((r, {"template": r["template"], "kind": f"build:{be}", "status": "violation", "detail": {"status": st}, "seconds": 0}))
    functions = sorted({f for r in results for f in r.get("functions", [])})
    constructs = sorted({c for r in results for c in r.get("constructs", [])})
    solver_s = sum(o["seconds"] for o in obls)
    samples = []
    for r in results[:3] + results[len(results) // 2 : len(results) // 2 + 2]:
        samples.append(
            {
                "template": r["template"],
                "sql": (r.get("artefacts") or {}).get("sql"),
                "plan_sha1": (r.get("artefacts") or {}).get("plan_sha1"),
                "obligations": {o["kind"]: o["status"] for o in r["obligations"]},
                "def": r.get("defs"),
            }
        )
    refused = [r["template"] for r in results if any(str(s).startswith("refused") for s in r.get("status", {}).values())]
    coverage = {
        "programs": len(tps),
        "disagreements_checked": len(sat_replayed),
        "samples": samples,
        "obligations": len(solver_kinds),
        "discharged": len(discharged),
        "sat_replayed": len(sat_replayed),
        "inconclusive": len(inconclusive),
        "obligations_skipped_because_sql_refused": len(permitted_refusals),
        "inconclusive_list": [f"{o['template']}:{o['kind']}:{o['status']}" for o in inconclusive][:60],
        "harness_faults": [f"{o['template']}:{o['kind']}:{o['status']}" for o in harness][:40],
        "structural_obligations": len(structural),
        "structural_ok": len([o for o in structural if o["status"] == "structural-ok"]),
        "vacuity_reachable": len([o for o in obls if o["status"] == "reachable"]),
        "perturbation_discriminates": len([o for o in obls if o["status"] == "discriminates"]),
        "models_validated": len([o for o in obls if o["status"] == "validated"]),
        "unsupported_artefacts_concrete_fallback": len([o for o in obls if o["kind"].startswith("fallback:")]),
        "model_validation_samples": sum((o.get("detail") or {}).get("tried", 0) for o in obls if o["kind"].startswith("validate:")),
        "sql_refused_templates": refused,
        "solver_seconds": round(solver_s, 2),
        "cross_solver_queries": sum(len(r.get("cross_solver", [])) for r in results),
        "cross_solver_verdicts": _count_cross(results),
        "functions_encoded": functions,
        "artefact_constructs_interpreted": constructs,
        "bounds": {
            "rows_first_table": cfg.nmax, "rows_other_tables": cfg.nmax2, "int_abs_bound": cfg.int_bound,
            "int_abs_bound_nonlinear": cfg.small_int_bound, "string_length": cfg.str_len,
            "per_query_timeout_ms": cfg.timeout_ms,
            "dates_datetimes": "1960-01-01 .. 2099-12-31 as integer days / microseconds (DESIGN.md 4.8); rows of individual templates may be bounded lower (Template.nmax)",
            "outside": "taller tables, larger values, longer strings, floats other than quarter-dyadics, durations, time zones, everything DESIGN.md 9 lists",
        },  # fmt: skip
        "exhaustive": False,
        "explanation": "programs enumerated from the property's template corpus; for each program z3 decides equality of the compiled artefact's semantics with REF / the other backend for all input tables in the bounds (unsat = discharged); sat answers are replayed on the real engines",
    }
    return coverage, violations, harness


def emit(pid, tier, seed, level, coverage, violations, wall, assumptions, harness_faults=()):
    """violations: list of dicts {key, what, payload}.  Writes evidence, replay files,
    prints the verdict lines, returns the exit status."""
    known = load_known()
    os.makedirs(EVIDENCE, exist_ok=True)
    d0 = os.path.join(REPLAYS, pid)
    if os.path.isdir(d0):
        for fn in os.listdir(d0):
            if fn.endswith(".json"):
                os.unlink(os.path.join(d0, fn))
    new = []
    lines = []
    seen_known = set()
    for v in violations:
        k = match_known(known, pid, v["key"])
        if k is not None:
            if k["key"] not in seen_known:
                lines.append(f"KNOWN-FINDING: property={pid} {k['what']}")
                seen_known.add(k["key"])
            continue
        d = os.path.join(REPLAYS, pid)
        os.makedirs(d, exist_ok=True)
        h = hashlib.sha1(json.dumps(v, sort_keys=True, default=str).encode()).hexdigest()[:12]
        path = os.path.join(d, f"{h}.json")
        with open(path, "w") as f:
            json.dump({"property": pid, **v}, f, indent=1, default=str)
        new.append(path)
        lines.append(f"VIOLATION property={pid} replay={path}")
        lines.append(f"  what: {v['key']}: {str(v.get('what'))[:300]}")
    ev = {
        "property_id": pid,
        "tier": tier,
        "seed": seed,
        "level": level,
        "coverage": coverage,
        "assumptions": list(assumptions),
        "wall_s": round(wall, 2),
        "violations": len(new),
        "known_findings_seen": sorted(seen_known),
    }
    with open(os.path.join(EVIDENCE, f"{pid}.json"), "w") as f:
        json.dump(ev, f, indent=1, default=str)
    for ln in lines:
        print(ln)
    if harness_faults:
        for h in harness_faults[:20]:
            print(f"HARNESS-FAULT {h}")
    print(
        f"{pid} tier={tier} wall={wall:.1f}s violations={len(new)} known={len(seen_known)} "
        + " ".join(f"{k}={coverage[k]}" for k in ("programs", "obligations", "discharged", "inconclusive", "evaluations") if k in coverage)
    )
    if new:
        return 1
    if any("harness-error" in str(h) for h in harness_faults):
        # the check itself is broken for some cases: never report success on top of that
        print(f"HARNESS-ERROR property={pid}: {sum('harness-error' in str(h) for h in harness_faults)} case(s) could not be analysed")
        return 3
    return 0


E1_ASSUMPTIONS = [
    "engine models SEM_polars (Polars 1.44 logical-plan JSON) and SEM_sqlite (SQLite 3.40 SQL text) are hand-written; they are validated on every run against the real engines on random concrete tables (coverage.models_validated) and every counterexample is replayed on the real engines before it is reported",
    "REF (pv/ref.py) is the reference reading of the documentation (DESIGN.md Appendix A); DEF side conditions it emits are assumed in every query (coverage.samples[*].def)",
    "program quantifier: the template corpus (bounded enumeration); value quantifier: decided by z3 within coverage.bounds",
    "z3 5.1 decides every obligation; for a seed-rotated tenth of the templates (a fifth in the thorough tier) every unsat verdict is re-decided by the cvc5 1.0.3 binary and z3 4.8.12 from an SMT-LIB2 dump (coverage.cross_solver_verdicts) - a 'sat' from either makes the obligation inconclusive; unknown/timeouts are inconclusive, never discharged",
    "integers are mathematical (overflow outside the claim); Float64 modelled as exact rationals on quarter-dyadic inputs (DESIGN.md 4.4)",
]


def e1_violations(results_violations, pid):
    out = []
    for r, o in results_violations:
        out.append(
            {
                "key": f"{r['template']}:{o['kind']}",
                "what": f"{o['status']} in {o['kind']}",
                "payload": {"template": r["template"], "obligation": o["kind"], "detail": o.get("detail"), "artefacts": r.get("artefacts"), "status": r.get("status")},
            }
        )
    return out


def main(argv=None):
    ap = argparse.ArgumentParser()
    ap.add_argument("pid")
    ap.add_argument("--tier", default=os.environ.get("VERIF_TIER", "quick"))
    ap.add_argument("--replay")
    ap.add_argument("--only", help="substring filter on template names (debugging)")
    args = ap.parse_args(argv)
    seed = int(os.environ.get("VERIF_SEED", "0") or 0)
    pid = args.pid.upper()
    try:
        mod = importlib.import_module(f"pv.checks.{pid.lower()}")
    except ModuleNotFoundError:
        print(f"no check for {pid}")
        return 3
    try:
        if args.replay:
            return mod.replay(args.replay)
        return mod.run(args.tier, seed)
    except Exception:  # noqa: BLE001
        traceback.print_exc()
        print(f"HARNESS-ERROR property={pid}")
        return 3


if __name__ == "__main__":
    sys.exit(main())
