"""A small recursive-descent parser for the SQL text that SQLAlchemy emits for the SQLite
dialect (what `build_query()` returns).  Produces plain tuples / dicts.

Statement shape (anything else raises ParseError - which for C18 is itself a finding
candidate: the statement "lost its structure"):

  stmt     := compound [ORDER BY ordterm {, ordterm}] [LIMIT expr [OFFSET expr]]
  compound := core { UNION [ALL] core }
  core     := SELECT [DISTINCT] rescol {, rescol} [FROM from] [WHERE e] [GROUP BY e{,e}] [HAVING e]
  from     := tref { [LEFT|FULL|INNER|CROSS] [OUTER] JOIN tref [ON e] }
  tref     := ident [AS ident] | ( stmt ) [AS ident]
"""

from __future__ import annotations

import re


class ParseError(Exception):
    pass


_TOKEN_RE = re.compile(
    r"""
    (?P<ws>\s+)
  | (?P<num>\d+\.\d*(?:[eE][+-]?\d+)?|\.\d+(?:[eE][+-]?\d+)?|\d+[eE][+-]?\d+|\d+)
  | (?P<str>'(?:[^']|'')*')
  | (?P<qid>"(?:[^"]|"")*")
  | (?P<id>[A-Za-z_][A-Za-z_0-9$]*)
  | (?P<op>\|\||<>|!=|==|<=|>=|<<|>>|[-+*/%(),.<>=~&|;])
""",
    re.X | re.S,
)

KEYWORDS = {
    "SELECT", "DISTINCT", "FROM", "WHERE", "GROUP", "BY", "HAVING", "ORDER", "LIMIT", "OFFSET", "UNION", "ALL",
    "AS", "JOIN", "LEFT", "FULL", "INNER", "CROSS", "OUTER", "ON", "AND", "OR", "NOT", "IS", "NULL", "IN", "LIKE",
    "ESCAPE", "CASE", "WHEN", "THEN", "ELSE", "END", "CAST", "OVER", "PARTITION", "ASC", "DESC", "NULLS", "FIRST",
    "LAST", "COLLATE", "BETWEEN", "EXISTS", "TRUE", "FALSE", "GLOB",
}  # fmt: skip


def tokenize(sql: str):
    pos = 0
    out = []
    while pos < len(sql):
        m = _TOKEN_RE.match(sql, pos)
        if not m:
            raise ParseError(f"cannot tokenize at {pos}: {sql[pos:pos+30]!r}")
        pos = m.end()
        kind = m.lastgroup
        txt = m.group(kind)
        if kind == "ws":
            continue
        if kind == "id":
            if txt.upper() in KEYWORDS:
                out.append(("kw", txt.upper()))
            else:
                out.append(("id", txt))
        elif kind == "qid":
            out.append(("id", txt[1:-1].replace('""', '"')))
        elif kind == "str":
            out.append(("str", txt[1:-1].replace("''", "'")))
        elif kind == "num":
            out.append(("num", txt))
        else:
            out.append(("op", txt))
    out.append(("eof", None))
    return out


class Parser:
    def __init__(self, sql):
        self.toks = tokenize(sql)
        self.i = 0

    # token helpers
    def peek(self, k=0):
        return self.toks[min(self.i + k, len(self.toks) - 1)]

    def at_kw(self, *kws):
        t = self.peek()
        return t[0] == "kw" and t[1] in kws

    def at_op(self, *ops):
        t = self.peek()
        return t[0] == "op" and t[1] in ops

    def eat_kw(self, kw):
        if not self.at_kw(kw):
            raise ParseError(f"expected {kw}, got {self.peek()} at token {self.i}")
        self.i += 1

    def eat_op(self, op):
        if not self.at_op(op):
            raise ParseError(f"expected {op!r}, got {self.peek()} at token {self.i}")
        self.i += 1

    def try_kw(self, kw):
        if self.at_kw(kw):
            self.i += 1
            return True
        return False

    def try_op(self, op):
        if self.at_op(op):
            self.i += 1
            return True
        return False

    def ident(self):
        t = self.peek()
        if t[0] != "id":
            raise ParseError(f"expected identifier, got {t}")
        self.i += 1
        return t[1]

    # statements
    def parse_statement(self):
        st = self.stmt()
        self.try_op(";")
        if self.peek()[0] != "eof":
            raise ParseError(f"trailing tokens: {self.toks[self.i:self.i+5]}")
        return st

    def stmt(self):
        cores = [self.core()]
        ops = []
        while self.at_kw("UNION"):
            self.i += 1
            ops.append("UNION ALL" if self.try_kw("ALL") else "UNION")
            cores.append(self.core())
        order = []
        if self.at_kw("ORDER"):
            self.i += 1
            self.eat_kw("BY")
            order.append(self.ordterm())
            while self.try_op(","):
                order.append(self.ordterm())
        limit = offset = None
        if self.try_kw("LIMIT"):
            limit = self.expr()
            if self.try_kw("OFFSET"):
                offset = self.expr()
        return {"cores": cores, "setops": ops, "order": order, "limit": limit, "offset": offset}

    def ordterm(self):
        e = self.expr()
        desc = False
        if self.try_kw("ASC"):
            pass
        elif self.try_kw("DESC"):
            desc = True
        nulls = None
        if self.try_kw("NULLS"):
            if self.try_kw("FIRST"):
                nulls = "first"
            else:
                self.eat_kw("LAST")
                nulls = "last"
        return {"expr": e, "desc": desc, "nulls": nulls}

    def core(self):
        if self.at_op("("):
            # parenthesised compound member
            self.i += 1
            st = self.stmt()
            self.eat_op(")")
            return {"paren": st}
        self.eat_kw("SELECT")
        distinct = self.try_kw("DISTINCT")
        cols = [self.rescol()]
        while self.try_op(","):
            cols.append(self.rescol())
        frm = None
        if self.try_kw("FROM"):
            frm = self.from_clause()
        where = self.expr() if self.try_kw("WHERE") else None
        group = []
        if self.at_kw("GROUP"):
            self.i += 1
            self.eat_kw("BY")
            group.append(self.expr())
            while self.try_op(","):
                group.append(self.expr())
        having = self.expr() if self.try_kw("HAVING") else None
        return {"distinct": distinct, "cols": cols, "from": frm, "where": where, "group": group, "having": having}

    def rescol(self):
        e = self.expr()
        name = None
        if self.try_kw("AS"):
            name = self.ident()
        return (e, name)

    def from_clause(self):
        left = self.tref()
        joins = []
        while True:
            kind = None
            if self.at_kw("JOIN"):
                kind = "inner"
            elif self.at_kw("LEFT"):
                kind = "left"
                self.i += 1
                self.try_kw("OUTER")
            elif self.at_kw("FULL"):
                kind = "full"
                self.i += 1
                self.try_kw("OUTER")
            elif self.at_kw("INNER"):
                kind = "inner"
                self.i += 1
            elif self.at_kw("CROSS"):
                kind = "cross"
                self.i += 1
            elif self.at_op(","):
                raise ParseError("comma join")
            if kind is None:
                break
            self.eat_kw("JOIN")
            right = self.tref()
            on = self.expr() if self.try_kw("ON") else None
            joins.append((kind, right, on))
        return {"first": left, "joins": joins}

    def tref(self):
        if self.at_op("(") and not (self.peek(1) == ("kw", "SELECT") or self.peek(1) == ("op", "(")):
            # parenthesised join: ( a JOIN b ON ... )
            self.i += 1
            fc = self.from_clause()
            self.eat_op(")")
            return {"joingroup": fc}
        if self.try_op("("):
            st = self.stmt()
            self.eat_op(")")
            alias = None
            if self.try_kw("AS"):
                alias = self.ident()
            return {"sub": st, "alias": alias}
        name = self.ident()
        if self.try_op("."):
            name = self.ident()  # schema-qualified
        alias = name
        if self.try_kw("AS"):
            alias = self.ident()
        return {"table": name, "alias": alias}

    # expressions (SQLite precedence)
    def expr(self):
        return self.p_or()

    def p_or(self):
        e = self.p_and()
        while self.try_kw("OR"):
            e = ("or", e, self.p_and())
        return e

    def p_and(self):
        e = self.p_not()
        while self.try_kw("AND"):
            e = ("and", e, self.p_not())
        return e

    def p_not(self):
        if self.try_kw("NOT"):
            return ("not", self.p_not())
        return self.p_eq()

    def p_eq(self):
        e = self.p_cmp()
        while True:
            if self.at_op("=", "==", "!=", "<>"):
                op = self.peek()[1]
                self.i += 1
                e = ("cmp", "==" if op in ("=", "==") else "!=", e, self.p_cmp())
            elif self.at_kw("IS"):
                self.i += 1
                neg = self.try_kw("NOT")
                rhs = self.p_cmp()
                e = ("is", neg, e, rhs)
            elif self.at_kw("IN") or (self.at_kw("NOT") and self.peek(1) == ("kw", "IN")):
                neg = self.try_kw("NOT")
                self.eat_kw("IN")
                self.eat_op("(")
                items = []
                if not self.at_op(")"):
                    items.append(self.expr())
                    while self.try_op(","):
                        items.append(self.expr())
                self.eat_op(")")
                e = ("in", neg, e, items)
            elif self.at_kw("LIKE") or (self.at_kw("NOT") and self.peek(1) == ("kw", "LIKE")):
                neg = self.try_kw("NOT")
                self.eat_kw("LIKE")
                pat = self.p_cmp()
                esc = None
                if self.try_kw("ESCAPE"):
                    esc = self.p_cmp()
                e = ("like", neg, e, pat, esc)
            elif self.at_kw("BETWEEN"):
                raise ParseError("BETWEEN not supported")
            else:
                return e

    def p_cmp(self):
        e = self.p_bit()
        while self.at_op("<", "<=", ">", ">="):
            op = self.peek()[1]
            self.i += 1
            e = ("cmp", op, e, self.p_bit())
        return e

    def p_bit(self):
        e = self.p_add()
        while self.at_op("&", "|", "<<", ">>"):
            raise ParseError("bit operators not supported")
        return e

    def p_add(self):
        e = self.p_mul()
        while self.at_op("+", "-"):
            op = self.peek()[1]
            self.i += 1
            e = ("arith", op, e, self.p_mul())
        return e

    def p_mul(self):
        e = self.p_concat()
        while self.at_op("*", "/", "%"):
            op = self.peek()[1]
            self.i += 1
            e = ("arith", op, e, self.p_concat())
        return e

    def p_concat(self):
        e = self.p_collate()
        while self.try_op("||"):
            e = ("concat", e, self.p_collate())
        return e

    def p_collate(self):
        e = self.p_unary()
        while self.try_kw("COLLATE"):
            e = ("collate", e, self.ident())
        return e

    def p_unary(self):
        if self.try_op("-"):
            return ("neg", self.p_unary())
        if self.try_op("+"):
            return self.p_unary()
        if self.at_op("~"):
            raise ParseError("bitwise not")
        return self.p_primary()

    def p_primary(self):
        t = self.peek()
        if t[0] == "num":
            self.i += 1
            txt = t[1]
            if re.fullmatch(r"\d+", txt):
                return ("lit", int(txt))
            return ("lit", float(txt))
        if t[0] == "str":
            self.i += 1
            return ("lit", t[1])
        if t[0] == "kw":
            if t[1] == "NULL":
                self.i += 1
                return ("lit", None)
            if t[1] in ("TRUE", "FALSE"):
                self.i += 1
                return ("lit", 1 if t[1] == "TRUE" else 0)
            if t[1] == "CASE":
                return self.p_case()
            if t[1] == "CAST":
                self.i += 1
                self.eat_op("(")
                e = self.expr()
                self.eat_kw("AS")
                ty = [self.ident()]
                while self.peek()[0] == "id":
                    ty.append(self.ident())
                if self.try_op("("):
                    while not self.at_op(")"):
                        self.i += 1
                    self.eat_op(")")
                self.eat_op(")")
                return ("cast", e, " ".join(ty).upper())
            if t[1] in ("LEFT",):
                raise ParseError("unexpected keyword")
            raise ParseError(f"unexpected keyword {t[1]}")
        if t[0] == "op" and t[1] == "(":
            self.i += 1
            if self.at_kw("SELECT"):
                raise ParseError("scalar subquery")
            e = self.expr()
            self.eat_op(")")
            return e
        if t[0] == "id":
            name = self.ident()
            if self.at_op("("):
                return self.p_call(name)
            if self.try_op("."):
                col = self.ident()
                return ("col", name, col)
            return ("col", None, name)
        raise ParseError(f"unexpected token {t}")

    def p_case(self):
        self.eat_kw("CASE")
        if not self.at_kw("WHEN"):
            raise ParseError("CASE with operand")
        whens = []
        while self.try_kw("WHEN"):
            c = self.expr()
            self.eat_kw("THEN")
            v = self.expr()
            whens.append((c, v))
        els = self.expr() if self.try_kw("ELSE") else None
        self.eat_kw("END")
        return ("case", whens, els)

    def p_call(self, name):
        self.eat_op("(")
        args = []
        star = False
        if self.try_op("*"):
            star = True
        elif not self.at_op(")"):
            if self.at_kw("DISTINCT"):
                raise ParseError("DISTINCT aggregate")
            args.append(self.expr())
            while self.try_op(","):
                args.append(self.expr())
        self.eat_op(")")
        over = None
        if self.try_kw("OVER"):
            self.eat_op("(")
            part, order = [], []
            if self.at_kw("PARTITION"):
                self.i += 1
                self.eat_kw("BY")
                part.append(self.expr())
                while self.try_op(","):
                    part.append(self.expr())
            if self.at_kw("ORDER"):
                self.i += 1
                self.eat_kw("BY")
                order.append(self.ordterm())
                while self.try_op(","):
                    order.append(self.ordterm())
            self.eat_op(")")
            over = {"partition": part, "order": order}
        return ("call", name.lower(), args, star, over)


def parse(sql: str):
    return Parser(sql).parse_statement()
