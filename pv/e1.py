"""E1 driver: translation validation of the compiled artefacts of one template.

For a template (an ordinary pydiverse program over a namespace `p`):
  * run it against REF on bounded symbolic tables            -> REF relation + DEF
  * run it against the real library on a Polars-backed table -> plan JSON  -> SEM_polars
  * run it against the real library on a SQLite-backed table -> SQL text   -> SEM_sqlite
  * ask z3 whether, for some input tables inside the bounds and inside DEF, two of the
    three relations differ.  unsat = holds for every table in the bound.
  * a model is replayed on the real engines before anything is reported."""

from __future__ import annotations

import dataclasses
import hashlib
import json
import math
import os
import random
import sys
import time
import traceback
from typing import Any, Callable

import z3

from . import kernel as K
from . import ref as R
from .kernel import BOOL, DATE, DT, INT, REAL, STR, Rel, SymInput, Unsupported

REPO_SRC = os.environ.get("PV_REPO_SRC", "/repo/src")


@dataclasses.dataclass
class Template:
    name: str
    sources: list  # [(name, {col: ty})]
    prog: Callable
    props: tuple = ()
    mode: str = "ref"  # ref: both backends vs REF (+ cross); cross: Polars vs SQLite only; equiv: prog vs prog2 per backend
    prog2: Callable | None = None
    nmax: int | None = None
    nmax2: int | None = None  # rows of the 2nd.. sources
    int_bound: int | None = None
    str_len: int | None = None
    alphabet: str | None = None  # restrict string data to these characters
    nullable: bool = True
    backends: tuple = ("polars", "sqlite")
    expect: str | None = None  # 'sql-refuses': SQL side must raise SubqueryError/NotSupportedError
    note: str = ""
    seq: bool = True  # demand sequence equality when the final order is determined
    tags: tuple = ()
    # constructs outside every interpreter (durations, parsing of column text): the template is
    # decided by a concrete differential of the two real backends on generated tables only
    # (NOT solver-decided, counted separately); gen(rng) -> {source: [row dict]}
    concrete_gen: Callable | None = None


@dataclasses.dataclass
class Cfg:
    tier: str = "quick"
    nmax: int = 3
    nmax2: int = 2
    int_bound: int = 2**31
    small_int_bound: int = 16
    str_len: int = 3
    timeout_ms: int = 20000
    validate_samples: int = 3
    seed: int = 0
    structural_only: bool = False  # skip solver obligations (properties without a value quantifier)
    types_check: bool = False  # C12: static dtypes vs schema of the compiled plan / exported frames
    cross_check_mod: int = 10  # every unsat verdict of 1/cross_check_mod of the templates is re-decided by cvc5 and z3 4.8

    @staticmethod
    def for_tier(tier, seed=0):
        if tier == "thorough":
            return Cfg(tier="thorough", nmax=4, nmax2=2, str_len=4, timeout_ms=120000, validate_samples=6, seed=seed, cross_check_mod=5)
        return Cfg(seed=seed)


class _Done(Exception):
    pass


class FnTrace:
    """records which functions of the repository run while the artefacts are built"""

    def __init__(self):
        self.seen = set()

    def _prof(self, frame, event, arg):
        if event == "call":
            fn = frame.f_code.co_filename
            if fn.startswith(REPO_SRC):
                self.seen.add(f"{fn[len(REPO_SRC) + 1:]}:{frame.f_code.co_qualname}")

    def __enter__(self):
        sys.setprofile(self._prof)
        return self

    def __exit__(self, *a):
        sys.setprofile(None)


def _alphabet_re(alphabet):
    """alphabet: string / list of characters; the pseudo-element 'PRINTABLE' stands for
    the ASCII range ' '..'~'"""
    parts = []
    for ch in alphabet:
        if ch == "PRINTABLE":
            parts.append(z3.Range(" ", "~"))
        else:
            parts.append(z3.Re(z3.StringVal(ch)))
    return z3.Union(*parts) if len(parts) > 1 else parts[0]


def _nonlinear(tp: Template) -> bool:
    return "nonlinear" in tp.tags


def make_inputs(tp: Template, cfg: Cfg):
    syms = {}
    for k, (name, schema) in enumerate(tp.sources):
        nmax = (tp.nmax or cfg.nmax) if k == 0 else (tp.nmax2 or cfg.nmax2)
        ib = tp.int_bound or (cfg.small_int_bound if _nonlinear(tp) else cfg.int_bound)
        sl = tp.str_len or cfg.str_len
        alpha = _alphabet_re(tp.alphabet) if tp.alphabet else None
        syms[name] = SymInput(name, schema, nmax, int_bound=ib, str_len=sl, str_alphabet=alpha, nullable=tp.nullable)
    return syms


def _align(rel: Rel, names):
    return rel.project(names)


class Built:
    """everything derived from one template, before any solver call"""

    def __init__(self):
        self.status = {}  # backend -> 'ok' | 'refused:<exc>' | 'error:<exc>' | 'unsupported:<msg>'
        self.rel = {}  # 'ref' | 'polars' | 'sqlite' | 'polars2' | 'sqlite2' | 'ref2'
        self.artefact = {}
        self.meta_cols = {}
        self.constructs = set()
        self.functions = set()
        self.notes = []
        self.extras = {}
        self.flags = set()


def build(tp: Template, cfg: Cfg) -> Built:
    from . import real as RL
    from .sem_polars import PolarsSem
    from .sem_sqlite import SqliteSem
    from .sqlparse import ParseError

    b = Built()
    b.syms = make_inputs(tp, cfg)
    str_len = tp.str_len or cfg.str_len
    b.world = R.World(str_len=str_len)
    b.side = []
    progs = [("", tp.prog)] + ([("2", tp.prog2)] if tp.prog2 is not None else [])
    # REF
    for sfx, prog in progs:
        try:
            rts = [R.RTable.source(b.world, name, b.syms[name]) for name, _ in tp.sources]
            rt = prog(R.RefAPI, *rts)
            if isinstance(rt, tuple):
                rt, b.extras["ref" + sfx] = rt
            b.rel["ref" + sfx] = rt._out()
            b.__dict__["ref_table" + sfx] = rt
            b.status["ref" + sfx] = "ok"
        except R.RefError as e:
            b.status["ref" + sfx] = f"refused:{e}"
        except Unsupported as e:
            b.status["ref" + sfx] = f"unsupported:{e}"
    frames = {name: RL.dummy_frame(schema, k) for k, (name, schema) in enumerate(tp.sources)}
    b.frames = frames
    import pydiverse.transform as pdt
    from pydiverse.transform._internal.errors import NotSupportedError, SubqueryError

    with FnTrace() as tr:
        for sfx, prog in progs:
            if "polars" in tp.backends:
                key = "polars" + sfx
                try:
                    RL.COLLECTED.clear()
                    RL.SYMBOLIC_BUILD[0] = True
                    try:
                        tbl = prog(RL.RealAPI, *RL.polars_tables(tp.sources, frames))
                    finally:
                        RL.SYMBOLIC_BUILD[0] = False
                    if isinstance(tbl, tuple):
                        tbl, b.extras[key] = tbl
                    b.meta_cols[key] = _meta(tbl)
                    plan = RL.plan_json(tbl)
                    b.artefact[key] = plan
                    sem = PolarsSem(
                        [(RL.scan_key(frames[name]), b.syms[name].rel) for name, _ in tp.sources],
                        str_len=str_len, collected=list(RL.COLLECTED),
                    )  # fmt: skip
                    K.WIDE.update(on="wide" in tp.tags, side=[])
                    try:
                        b.rel[key] = sem.plan(plan)
                        b.status[key] = "ok"
                    except Unsupported as e:
                        b.status[key] = f"unsupported:{e}"
                    finally:
                        K.WIDE["on"] = False
                    b.side += sem.side + K.WIDE["side"]
                    b.constructs |= sem.constructs
                    b.notes += sem.notes
                except Exception as e:  # noqa: BLE001
                    b.status[key] = f"error:{type(e).__name__}:{str(e)[:200]}"
            if "sqlite" in tp.backends:
                key = "sqlite" + sfx
                try:
                    eng = RL.sqlite_engine(tp.sources, frames)
                    RL.COLLECTED.clear()
                    RL.SYMBOLIC_BUILD[0] = True
                    try:
                        tbl = prog(RL.RealAPI, *RL.sqlite_tables(tp.sources, eng))
                    finally:
                        RL.SYMBOLIC_BUILD[0] = False
                    if isinstance(tbl, tuple):
                        tbl, b.extras[key] = tbl
                    b.meta_cols[key] = _meta(tbl)
                    sql = RL.sql_text(tbl)
                    sql_tables = {name: b.syms[name].rel for name, _ in tp.sources}
                    if sql is None:
                        # the pipeline passed through collect(): the rest runs on Polars
                        plan = RL.plan_json(tbl)
                        b.artefact[key] = {"plan_after_collect": True}
                        sem = PolarsSem([], str_len=str_len, collected=list(RL.COLLECTED), sql_tables=sql_tables)
                        runner = lambda: sem.plan(plan)  # noqa: E731
                    else:
                        b.artefact[key] = sql
                        sem = SqliteSem(sql_tables, str_len=str_len)
                        kinds = RL.sqlite_result_kinds(tbl)
                        b.extras[key + ":result_kinds"] = kinds
                        runner = lambda: sem.run(sql, kinds)  # noqa: E731
                    K.WIDE.update(on="wide" in tp.tags, side=[])
                    try:
                        b.rel[key] = runner()
                        b.status[key] = "ok"
                    except Unsupported as e:
                        b.status[key] = f"unsupported:{e}"
                    except ParseError as e:
                        b.status[key] = f"parse-error:{e}"
                    finally:
                        K.WIDE["on"] = False
                    b.side += sem.side + K.WIDE["side"]
                    b.constructs |= sem.constructs
                    b.notes += sem.notes
                    b.flags |= getattr(sem, "flags", set())
                except (SubqueryError, NotSupportedError) as e:
                    b.status[key] = f"refused:{type(e).__name__}"
                except Exception as e:  # noqa: BLE001
                    b.status[key] = f"error:{type(e).__name__}:{str(e)[:200]}"
    b.functions = tr.seen
    return b


def _meta(tbl):
    import pydiverse.transform as pdt
    from pydiverse.transform.extended import columns

    cols = tbl >> columns()
    return {
        "columns": cols,
        "iter": [c.name for c in tbl],
        "len": len(tbl),
        "contains": all(n in tbl for n in cols) and "__no_such_column__" not in tbl,
        "dir": all(n in dir(tbl) for n in cols if n.isidentifier()),
        "getitem": [tbl[n].name for n in cols],
    }


# ----------------------------------------------------------------------------------------
# obligations


@dataclasses.dataclass
class Obl:
    template: str
    kind: str  # e.g. 'polars≡ref/multiset'
    status: str = "pending"  # unsat | violation | model-divergence | unconfirmed-unspecified | unknown | skipped:<why> | structural-ok | structural-fail
    seconds: float = 0.0
    detail: Any = None
    key: str = ""


def base_constraints(b: Built):
    cons = []
    for s in b.syms.values():
        cons += s.constraints
    cons += b.world.side
    cons += b.side
    return cons


def def_conj(b: Built, extra=()):
    return [c for _, c in b.world.defs] + list(extra)


CROSS = {"on": False, "log": []}


def solve(cons, timeout_ms):
    s = z3.Solver()
    s.set("timeout", timeout_ms)
    for c in cons:
        s.add(c)
    t0 = time.time()
    r = s.check()
    dt = time.time() - t0
    r = str(r)
    if r == "unsat" and CROSS["on"]:
        other = cross_solvers(s)
        CROSS["log"].append(other)
        if any(v == "sat" for v in other.values()):
            return "unknown", None, dt  # solvers disagree: inconclusive, never a pass
    return r, (s.model() if r == "sat" else None), dt


def cross_solvers(s: z3.Solver, tlimit_s=60):
    """re-decides a query with the cvc5 binary and the system z3 4.8.12 (SMT-LIB2 dump)"""
    import subprocess
    import tempfile

    out = {}
    with tempfile.NamedTemporaryFile("w", suffix=".smt2", delete=False, dir=os.environ.get("TMPDIR", "/tmp")) as f:
        f.write("(set-logic ALL)\n" + s.to_smt2())
        path = f.name
    try:
        for name, cmd in (("cvc5", ["cvc5", f"--tlimit={tlimit_s * 1000}", "--strings-exp", path]), ("z3-4.8", ["/usr/bin/z3", f"-T:{tlimit_s}", path])):
            try:
                p = subprocess.run(cmd, capture_output=True, text=True, timeout=tlimit_s + 20)
                first = (p.stdout.strip().splitlines() or ["?"])[0]
                out[name] = first if first in ("sat", "unsat", "unknown") and "(error" not in p.stdout else "error"
            except Exception:  # noqa: BLE001
                out[name] = "timeout"
    finally:
        os.unlink(path)
    return out


def names_for_compare(b: Built, a: str, c: str):
    """column lists to compare relation a with relation c (aligned by name); returns
    (names_a, names_c) or raises Mismatch"""
    ra, rc = b.rel[a], b.rel[c]
    if set(ra.names) != set(rc.names) or len(ra.names) != len(rc.names):
        return None
    return list(ra.names), list(ra.names)


def final_total_order_def(rt: R.RTable):
    """extra DEF under which the final row sequence is determined"""
    out = []
    if rt._order_keys:
        n = rt.n
        for i in range(n):
            for j in range(i + 1, n):
                out.append(z3.Implies(K.And(rt._present[i], rt._present[j]), K.Not(K.lex_tie(rt._order_keys, i, j))))
    return out


def norm_val(v):
    if isinstance(v, bool):
        return int(v)
    if isinstance(v, float) and v == int(v) and abs(v) < 2**53:
        return float(v)
    return v


def rows_close(r1, r2):
    if len(r1) != len(r2):
        return False
    for x, y in zip(r1, r2, strict=True):
        x, y = norm_val(x), norm_val(y)
        if x is None or y is None:
            if x is not y:
                return False
        elif isinstance(x, float) or isinstance(y, float):
            if isinstance(x, str) or isinstance(y, str):
                return False
            if not math.isclose(float(x), float(y), rel_tol=1e-9, abs_tol=1e-9):
                return False
        elif x != y:
            return False
    return True


def _sort_key(row):
    return tuple((v is None, "" if v is None else (str(type(norm_val(v)).__name__ in ("int", "float")) , norm_val(v))) for v in row)


def same_rows(a, b, ordered):
    if len(a) != len(b):
        return False
    if not ordered:
        a = sorted(a, key=_sort_key)
        b = sorted(b, key=_sort_key)
        # floats could permute under tolerance; fall back to greedy matching
        if all(rows_close(x, y) for x, y in zip(a, b, strict=True)):
            return True
        rest = list(b)
        for x in a:
            for k, y in enumerate(rest):
                if rows_close(x, y):
                    del rest[k]
                    break
            else:
                return False
        return True
    return all(rows_close(x, y) for x, y in zip(a, b, strict=True))


def run_real(tp: Template, prog, backend, inputs):
    """execute the template on a real engine with concrete input rows.
    returns (names, rows) or ('error', exc-string)"""
    from . import real as RL

    frames = {name: RL.frame_from_rows(schema, inputs[name]) for name, schema in tp.sources}
    if backend == "polars":
        tbls = RL.polars_tables(tp.sources, frames)
    else:
        eng = RL.sqlite_engine(tp.sources, frames)
        tbls = RL.sqlite_tables(tp.sources, eng)
    out = prog(RL.RealAPI, *tbls)
    if isinstance(out, tuple):
        out = out[0]
    names, rows, df = RL.export_rows(out)
    return names, rows


def replay(tp: Template, b: Built, model, a: str, c: str, ordered: bool):
    """Replays a solver witness on the real engines.  Returns (verdict, detail)."""
    inputs = {name: b.syms[name].concrete(model) for name, _ in tp.sources}
    detail = {"inputs": inputs}
    names = list(b.rel[a].names)

    def side(x):
        if x.startswith("ref"):
            rel = b.rel[x].project(names)
            return names, K.concrete_rows(rel, model)
        prog = tp.prog2 if x.endswith("2") else tp.prog
        backend = x.rstrip("2")
        try:
            nm, rows = run_real(tp, prog, backend, inputs)
        except Exception as e:  # noqa: BLE001
            return None, f"{type(e).__name__}: {str(e)[:300]}"
        if set(nm) != set(names):
            return nm, "names-differ"
        idx = [nm.index(n) for n in names]
        return nm, [tuple(r[i] for i in idx) for r in rows]

    na, ra = side(a)
    nc, rc = side(c)
    detail[a] = ra
    detail[c] = rc
    # what the models predicted
    for x in (a, c):
        if not x.startswith("ref"):
            detail["model:" + x] = K.concrete_rows(b.rel[x].project(names) if x == a else b.rel[x].project(_names_like(b.rel[x], names)), model)
    if isinstance(ra, str) or isinstance(rc, str):
        # a real engine raised on an input inside DEF
        detail["error"] = ra if isinstance(ra, str) else rc
        return "engine-error", detail
    if same_rows(ra, rc, ordered):
        return "not-reproduced", detail
    return "reproduced", detail


def _names_like(rel, names):
    return names


def check_pair(tp: Template, b: Built, cfg: Cfg, a: str, c: str, *, want_seq: bool, known) -> list[Obl]:
    """obligations for relation a ≡ relation c"""
    obls = []
    label = f"{a}≡{c}"
    sa, sc = str(b.status.get(a)), str(b.status.get(c))
    if a.rstrip("2") == c.rstrip("2") and (sa.startswith("refused") != sc.startswith("refused")):
        # the same pipeline built from shared vs fresh objects: one is refused, the other accepted
        obls.append(Obl(tp.name, label + "/acceptance", "structural-fail", detail={a: sa, c: sc}))
        return obls
    for x in (a, c):
        st = b.status.get(x)
        if st != "ok":
            obls.append(Obl(tp.name, label, f"skipped:{x}:{st}"))
            return obls
    al = names_for_compare(b, a, c)
    if al is None:
        o = Obl(tp.name, label + "/names", "structural-fail", detail={"a": b.rel[a].names, "c": b.rel[c].names})
        obls.append(o)
        return obls
    names = al[0]
    A, C = b.rel[a].project(names), b.rel[c].project(names)
    cons = base_constraints(b)
    defs = def_conj(b)
    rt = b.__dict__.get("ref_table")
    jobs = [("multiset", K.multiset_eq(A, C), [], False)]
    if want_seq and rt is not None and rt._ordered and rt._order_keys and not getattr(rt, "_tie_unspec", False):
        jobs.append(("sequence", K.seq_eq(A, C), final_total_order_def(rt), True))
    for nm, eq, extra_def, ordered in jobs:
        kind = f"{label}/{nm}"
        if ordered and "order-through-subquery" in b.flags and "sqlite" in (a, c):
            kind += "/order-through-subquery"
        o = Obl(tp.name, kind)
        try:
            r, model, dt = solve(cons + defs + extra_def + [K.Not(eq)], cfg.timeout_ms)
        except z3.Z3Exception as e:
            o.status = f"unknown:z3-exception:{str(e)[:100]}"
            obls.append(o)
            continue
        o.seconds = dt
        if r == "unsat":
            o.status = "unsat"
        elif r == "sat":
            verdict, detail = replay(tp, b, model, a, c, ordered)
            o.detail = detail
            if verdict == "reproduced" or verdict == "engine-error":
                o.status = "violation" if verdict == "reproduced" else "engine-error"
            else:
                o.status = "unconfirmed-unspecified" if b.notes else "model-divergence"
        else:
            o.status = "unknown"
        obls.append(o)
    return obls


def vacuity(tp: Template, b: Built, cfg: Cfg) -> Obl:
    """DEF must be satisfiable together with a non-trivial input (>= 1 row in the first
    source, and a non-empty REF output if there is a REF)."""
    o = Obl(tp.name, "vacuity")
    cons = base_constraints(b) + def_conj(b)
    first = b.syms[tp.sources[0][0]]
    cons.append(first.nrows >= 1)
    r, model, dt = solve(cons, cfg.timeout_ms)
    o.seconds = dt
    o.status = "reachable" if r == "sat" else f"vacuous:{r}"
    return o


def perturbation(tp: Template, b: Built, cfg: Cfg, a: str) -> Obl:
    """Sanity of EQ (DESIGN 6.5): the relation with its first row removed must be
    distinguishable from the relation itself, i.e. `not EQ(a, a minus first row)` must be
    satisfiable inside DEF.  It is unsatisfiable only if the output is always empty."""
    o = Obl(tp.name, f"perturbation:{a}")
    rel = b.rel[a]
    pos = rel.dense_pos()
    P = Rel(rel.names, rel.data, [K.And(rel.present[i], pos[i] != 0) for i in range(rel.n)], rel.ok)
    cons = base_constraints(b) + def_conj(b) + [K.Not(K.multiset_eq(rel, P))]
    r, model, dt = solve(cons, cfg.timeout_ms)
    o.seconds = dt
    o.status = "discriminates" if r == "sat" else ("output-always-empty" if r == "unsat" else f"blind:{r}")
    return o


def structural(tp: Template, b: Built) -> list[Obl]:
    """[P] obligations: names / order / metadata (no value quantifier).  Metadata
    obligations belong to C11 and are only raised by templates that serve C11."""
    out = _structural(tp, b)
    if "C11" not in tp.props:
        for o in out:
            if o.kind.startswith("metadata:") and o.status == "structural-fail":
                o.status = "info:metadata-differs(C11)"
    return out


def _structural(tp: Template, b: Built) -> list[Obl]:
    out = []
    rt = b.__dict__.get("ref_table")
    for be in ("polars", "sqlite"):
        if b.status.get(be) not in ("ok",) and not str(b.status.get(be, "")).startswith("unsupported"):
            continue
        meta = b.meta_cols.get(be)
        if meta is None:
            continue
        art_names = None
        if be in b.rel:
            art_names = list(b.rel[be].names)
        o = Obl(tp.name, f"metadata:{be}")
        ok = (
            meta["columns"] == meta["iter"]
            and meta["len"] == len(meta["columns"])
            and meta["contains"]
            and meta["dir"]
            and meta["getitem"] == meta["columns"]
        )
        if art_names is not None:
            ok = ok and art_names == meta["columns"]
        o.status = "structural-ok" if ok else "structural-fail"
        o.detail = {"meta": meta, "artefact_names": art_names}
        out.append(o)
    if b.status.get("polars") == "ok" and b.status.get("sqlite") == "ok":
        o = Obl(tp.name, "names:polars=sqlite")
        ok = b.rel["polars"].names == b.rel["sqlite"].names
        o.status = "structural-ok" if ok else "structural-fail"
        o.detail = {"polars": b.rel["polars"].names, "sqlite": b.rel["sqlite"].names}
        out.append(o)
    for be in ("polars", "sqlite"):
        if be in b.extras and "ref" in b.extras:
            o = Obl(tp.name, f"extras:{be}=ref")
            o.status = "structural-ok" if list(b.extras[be]) == list(b.extras["ref"]) else "structural-fail"
            o.detail = {be: b.extras[be], "ref": b.extras["ref"]}
            out.append(o)
    if rt is not None and b.status.get("polars") == "ok":
        o = Obl(tp.name, "names:polars~ref")
        refn = rt._names()
        pn = b.rel["polars"].names
        ok = (pn == refn) if rt._order_fixed else (sorted(pn) == sorted(refn))
        o.status = "structural-ok" if ok else "structural-fail"
        o.detail = {"polars": pn, "ref": refn, "order_fixed": rt._order_fixed}
        out.append(o)
    return out


def model_for_inputs(b: Built, subs):
    """a z3 model in which the symbolic inputs equal the given concrete tables (fresh
    definitional symbols of the interpreters are completed by the solver)"""
    sol = z3.Solver()
    sol.set("timeout", 10000)
    for var, val in subs:
        sol.add(var == val)
    for c in b.world.side + b.side:
        sol.add(c)
    if str(sol.check()) != "sat":
        return None
    return sol.model()


def validate_models(tp: Template, b: Built, cfg: Cfg, rng: random.Random) -> list[Obl]:
    """Serval-style validation of the two engine models: concrete random tables are
    pushed through the real engine and through the interpreter's output terms."""
    out = []
    for be in ("polars", "sqlite"):
        if b.status.get(be) != "ok":
            continue
        prog = tp.prog
        o = Obl(tp.name, f"validate:{be}")
        agree = tried = 0
        mismatch = None
        engine_error = None
        order_bad = None
        for _ in range(cfg.validate_samples):
            inputs = {name: random_rows(schema, b.syms[name].nmax, rng, tp) for name, schema in tp.sources}
            subs = []
            for name, _ in tp.sources:
                subs += b.syms[name].substitution(inputs[name])
            # skip samples outside DEF
            try:
                in_def = all(z3.is_true(z3.simplify(z3.substitute(c, *subs))) for _, c in b.world.defs)
            except z3.Z3Exception:
                in_def = False
            if not in_def:
                continue
            # fresh symbols (unspecified order) stay symbolic: only validate when the
            # output terms become ground
            try:
                mdl = model_for_inputs(b, subs)
                if mdl is None:
                    continue
                rows_m = K.concrete_rows(b.rel[be], mdl, ordered=False)
            except Exception:  # noqa: BLE001
                continue
            try:
                names, rows_r = run_real(tp, prog, be, inputs)
            except Exception as e:  # noqa: BLE001
                # the real engine fails on a concrete input inside DEF: reported as such
                engine_error = {"inputs": inputs, "error": f"{type(e).__name__}: {str(e)[:200]}"}
                tried += 1
                continue
            tried += 1
            if names == b.rel[be].names and same_rows(rows_m, rows_r, False):
                agree += 1
            else:
                mismatch = {"inputs": inputs, "model": rows_m, "real": rows_r, "names": names}
            # row order: the real engine against REF's sequence when the final order is fixed
            rt = b.__dict__.get("ref_table")
            if rt is not None and tp.seq and rt._ordered and rt._order_keys and not getattr(rt, "_tie_unspec", False) and order_bad is None:
                try:
                    tot = all(z3.is_true(mdl.eval(c, model_completion=True)) for c in final_total_order_def(rt))
                    if tot and set(names) == set(b.rel["ref"].names):
                        ref_seq = K.concrete_rows(b.rel["ref"].project(names), mdl, ordered=True)
                        if same_rows(ref_seq, rows_r, False) and not same_rows(ref_seq, rows_r, True):
                            order_bad = {"inputs": inputs, be: rows_r, "ref": ref_seq}
                except Exception:  # noqa: BLE001
                    pass
        if engine_error is not None:
            o.status = "engine-error"
            o.detail = {"tried": tried, "agree": agree, **engine_error}
        else:
            o.status = "validated" if agree == tried else "model-mismatch"
            o.detail = {"tried": tried, "agree": agree, "mismatch": mismatch}
        out.append(o)
        if order_bad is not None:
            kind = f"validate-order:{be}" + ("/order-through-subquery" if "order-through-subquery" in b.flags and be == "sqlite" else "")
            out.append(Obl(tp.name, kind, "violation", detail=order_bad))
    return out


def fallback_concrete(tp: Template, b: Built, cfg: Cfg, rng: random.Random, be: str) -> Obl:
    """DESIGN 6.4: the artefact of backend `be` is outside the interpreters' grammar, so
    the solver cannot decide the template.  So that a gross discrepancy is still seen, the
    real backend is run on random concrete tables inside DEF and compared with REF
    evaluated on the same tables.  NOT solver-decided; counted separately."""
    o = Obl(tp.name, f"fallback:{be}≡ref")
    rt = b.__dict__.get("ref_table")
    if rt is None:
        o.status = "skipped:no-ref"
        return o
    ref_rel = b.rel["ref"]
    tried = 0
    for _ in range(max(6, 3 * cfg.validate_samples)):
        inputs = {name: random_rows(schema, b.syms[name].nmax, rng, tp) for name, schema in tp.sources}
        subs = []
        for name, _ in tp.sources:
            subs += b.syms[name].substitution(inputs[name])
        try:
            if not all(z3.is_true(z3.simplify(z3.substitute(c, *subs))) for _, c in b.world.defs):
                continue
            mdl = model_for_inputs(b, subs)
            if mdl is None:
                continue
            ref_rows = K.concrete_rows(ref_rel, mdl, ordered=False)
        except Exception:  # noqa: BLE001
            continue
        tried += 1
        try:
            names, rows = run_real(tp, tp.prog, be, inputs)
        except Exception as e:  # noqa: BLE001
            o.status = "engine-error"
            o.detail = {"inputs": inputs, "error": f"{type(e).__name__}: {str(e)[:300]}", "not_solver_decided": True}
            return o
        ok = set(names) == set(ref_rel.names)
        if ok:
            idx = [names.index(n) for n in ref_rel.names]
            rows = [tuple(r[i] for i in idx) for r in rows]
            ok = same_rows(rows, ref_rows, False)
        if not ok:
            o.status = "violation"
            o.detail = {"inputs": inputs, be: rows, "ref": ref_rows, "names": names, "not_solver_decided": True}
            return o
    o.status = "fallback-agrees"
    o.detail = {"tried": tried, "not_solver_decided": True}
    return o


def cross_concrete(tp: Template, cfg: Cfg, rng: random.Random) -> Obl:
    """templates with `concrete_gen`: Polars vs SQLite on generated tables (not solver-decided)"""
    o = Obl(tp.name, "concrete:polars≡sqlite")
    tried = 0
    for _ in range(6 if cfg.tier == "quick" else 30):
        inputs = tp.concrete_gen(rng)
        res = {}
        for be in tp.backends:
            try:
                res[be] = run_real(tp, tp.prog, be, inputs)
            except Exception as e:  # noqa: BLE001
                res[be] = ("error", f"{type(e).__name__}: {str(e)[:200]}")
        tried += 1
        errs = [be for be in res if res[be][0] == "error"]
        if len(errs) == len(res):
            continue  # both refuse these data
        ok = not errs
        if ok:
            (n1, r1), (n2, r2) = res["polars"], res["sqlite"]
            ok = list(n1) == list(n2) and same_rows(r1, r2, False)
        if not ok:
            o.status = "violation"
            o.detail = {"inputs": inputs, **{be: (res[be][1] if res[be][0] == "error" else res[be][1]) for be in res}, "not_solver_decided": True}
            return o
    o.status = "fallback-agrees"
    o.detail = {"tried": tried, "not_solver_decided": True}
    return o


def _family(pl_dtype):
    import polars as pl

    if pl_dtype.is_integer():
        return "int"
    if pl_dtype.is_float():
        return "float"
    if pl_dtype.is_decimal():
        return "decimal"
    if pl_dtype == pl.Boolean:
        return "bool"
    if pl_dtype == pl.String:
        return "str"
    if pl_dtype == pl.Null:
        return "null"
    return str(pl_dtype)


def type_obligations(tp: Template, b: Built, cfg: Cfg, rng: random.Random) -> list[Obl]:
    """C12.  (a) schema of the compiled Polars plan == static dtypes, exactly (Polars' own
    type inference is the oracle, no value involved); (b) static kind of every SQLite
    output expression (tracked by SEM_sqlite, after the SQLAlchemy result processor of the
    real Select: without a Boolean / Date / DateTime processor the driver hands back the
    raw integer / text) lies in the family of the static dtype;
    (c) on concrete tables: exported schemas (Polars exactly; SQLite up to the numeric
    family, all-null columns may be null-typed), re-import with Table(...) and collect()."""
    import polars as pl

    import pydiverse.transform as pdt
    from pydiverse.transform import extended as X
    from pydiverse.transform._internal.tree import types as T

    from . import real as RL

    out = []

    def static_types(tbl):
        return {c.name: T.without_const(c.dtype()) for c in tbl}

    def build(be, frames):
        tbls = RL.polars_tables(tp.sources, frames) if be == "polars" else RL.sqlite_tables(tp.sources, RL.sqlite_engine(tp.sources, frames))
        t = tp.prog(RL.RealAPI, *tbls)
        return t[0] if isinstance(t, tuple) else t

    # (a)
    if b.status.get("polars") in ("ok",) or str(b.status.get("polars", "")).startswith("unsupported"):
        o = Obl(tp.name, "types:polars-plan-schema")
        try:
            tbl = build("polars", b.frames)
            st = static_types(tbl)
            lf = tbl >> X.export(pdt.Polars(lazy=True))
            sch = lf.collect_schema()
            bad = {n: (str(st[n]), str(sch[n])) for n in sch.names() if st[n].to_polars() != sch[n]}
            o.status = "structural-ok" if not bad and list(sch.names()) == list(st) else "structural-fail"
            o.detail = {"mismatch": bad, "static": {k: str(v) for k, v in st.items()}}
        except Exception as e:  # noqa: BLE001
            o.status = "structural-fail"
            o.detail = {"error": f"{type(e).__name__}: {str(e)[:300]}"}
        out.append(o)
    # (b)
    if b.status.get("sqlite") == "ok" and isinstance(b.artefact.get("sqlite"), str):
        o = Obl(tp.name, "types:sqlite-storage-kind")
        try:
            tbl = build("sqlite", b.frames)
            st = static_types(tbl)
            rel = b.rel["sqlite"]
            bad = {}
            for n in rel.names:
                kind = rel.data[n][0].ty if rel.data[n] else "null"
                fam = "null" if type(st[n]).__name__ == "NullType" else ("num" if (st[n].is_int() or st[n].is_float()) else "bool" if st[n] == pdt.Bool() else "str" if isinstance(st[n], pdt.String) else str(st[n]))
                ok = kind == "null" or (fam == "num" and kind in ("int", "real", "bool")) or (fam == "bool" and kind == "bool") or (fam == "str" and kind == "str") or fam == "null" or (fam, kind) in (("Date", DATE), ("Datetime", DT))
                # numeric family: SQLite returns the chosen argument of coalesce / CASE / min / max
                # with its own storage class and SQLAlchemy turns Numeric-typed results into
                # Decimals, so what makes a Float column a float column *for every table* is the
                # Float result type of the real Select (its processor converts integers); without
                # a numeric result type the modelled storage kind decides
                rk = (b.extras.get("sqlite:result_kinds") or {}).get(n, "?")
                if ok and fam == "num" and rk != "?":
                    if st[n].is_float():
                        ok = rk == "float" or (rk is None and kind == "real")
                    elif st[n].is_int():  # no processor converts a REAL to an integer
                        ok = kind in ("int", "bool")
                if not ok:
                    bad[n] = (str(st[n]), kind, f"result type of the Select: {rk}")
            o.status = "structural-ok" if not bad else "structural-fail"
            o.detail = {"mismatch": bad}
        except Exception as e:  # noqa: BLE001
            o.status = "structural-fail"
            o.detail = {"error": f"{type(e).__name__}: {str(e)[:300]}"}
        out.append(o)
    # (c)
    for be in tp.backends:
        if str(b.status.get(be, "")).startswith(("refused", "error")):
            continue
        o = Obl(tp.name, f"types:export:{be}")
        bad = None
        tried = 0
        for _ in range(max(2, cfg.validate_samples)):
            inputs = {name: random_rows(schema, b.syms[name].nmax, rng, tp) for name, schema in tp.sources}
            subs = []
            for name, _ in tp.sources:
                subs += b.syms[name].substitution(inputs[name])
            try:
                if not all(z3.is_true(z3.simplify(z3.substitute(c, *subs))) for _, c in b.world.defs):
                    continue
            except z3.Z3Exception:
                continue
            frames = {name: RL.frame_from_rows(schema, inputs[name]) for name, schema in tp.sources}
            try:
                tbl = build(be, frames)
                st = static_types(tbl)
                df = tbl >> X.export(pdt.Polars())
            except Exception as e:  # noqa: BLE001
                bad = {"inputs": inputs, "error": f"{type(e).__name__}: {str(e)[:200]}"}
                break
            tried += 1
            for n in df.columns:
                want = st[n].to_polars()
                got = df.schema[n]
                allnull = df[n].null_count() == df.height
                if be == "polars":
                    ok = got == want
                else:
                    # "up to the numeric family": widths may differ, but an Int column is an integer
                    # column and a Float column a floating-point column (not Int64, not Decimal)
                    ok = _family(got) == _family(want) or (allnull and _family(got) == "null")
                if not ok:
                    bad = {"inputs": inputs, "column": n, "static": str(st[n]), "exported": str(got)}
            # re-import and collect reproduce the exported types
            try:
                re = pdt.Table(df)
                rt = {c.name: T.without_const(c.dtype()).to_polars() for c in re}
                if any(rt[n] != df.schema[n] for n in df.columns) and bad is None:
                    bad = {"inputs": inputs, "reimport": {n: (str(rt[n]), str(df.schema[n])) for n in df.columns if rt[n] != df.schema[n]}}
                col = tbl >> X.collect()
                ct = {c.name: T.without_const(c.dtype()).to_polars() for c in col}
                if any(_family(ct[n]) != _family(df.schema[n]) for n in df.columns) and bad is None:
                    bad = {"inputs": inputs, "collect": {n: (str(ct[n]), str(df.schema[n])) for n in df.columns}}
            except Exception as e:  # noqa: BLE001
                if bad is None:
                    bad = {"inputs": inputs, "error": f"reimport/collect: {type(e).__name__}: {str(e)[:200]}"}
            if bad:
                break
        o.status = "structural-ok" if bad is None else "structural-fail"
        o.detail = bad or {"tried": tried}
        out.append(o)
    return out


def random_rows(schema, nmax, rng, tp: Template):
    n = rng.randint(0, nmax)
    rows = []
    alpha = tp.alphabet or "ab "
    if not isinstance(alpha, str):
        alpha = "".join("aA %_'-\\/;." if ch == "PRINTABLE" else ch for ch in alpha)
    for _ in range(n):
        row = {}
        for c, ty in schema.items():
            if tp.nullable and rng.random() < 0.25:
                row[c] = None
            elif ty == INT:
                row[c] = rng.choice([-3, -2, -1, 0, 1, 2, 3, 5, 7])
            elif ty == BOOL:
                row[c] = rng.random() < 0.5
            elif ty == REAL:
                row[c] = rng.choice([-2.5, -1.0, -0.25, 0.0, 0.5, 1.5, 2.0, 3.75])
            elif ty == DATE:
                row[c] = K.days_to_date(rng.choice([-3653, -1, 0, 1, 59, 10956, 11016, 11017, 18266, 18267, 19782, 47481]))
            elif ty == K.DT_MS:
                row[c] = K.us_to_dt(rng.choice([-3653, -1, 0, 11016, 18266]) * K.US_DAY + rng.choice([0, 1000, 123_000, 999_000, 3_723_004_000, 86_399_999_000]))
            elif ty in (DT, K.DT_NS):
                row[c] = K.us_to_dt(rng.choice([-3653, -1, 0, 11016, 18266, 18267]) * K.US_DAY + rng.choice([0, 0, 1, 999_999, 1_000_000, 3_723_000_004, 43_200_000_000, 86_399_999_999]))
            else:
                row[c] = "".join(rng.choice(alpha) for _ in range(rng.randint(0, tp.str_len or 3)))
        rows.append(row)
    return rows


def analyse(tp: Template, cfg: Cfg, *, known=None) -> dict:
    t0 = time.time()
    if tp.concrete_gen is not None and not cfg.types_check and not cfg.structural_only:
        hsh = int(hashlib.sha1(tp.name.encode()).hexdigest()[:8], 16)
        o = cross_concrete(tp, cfg, random.Random(cfg.seed * 7919 + hsh))
        return {
            "template": tp.name, "props": list(tp.props), "obligations": [dataclasses.asdict(o)], "functions": [], "constructs": ["concrete-only"],
            "defs": [], "notes": ["outside the interpreters: concrete differential only"], "status": {"ref": "outside-model"}, "artefacts": {}, "seconds": time.time() - t0, "cross_solver": [],
        }  # fmt: skip
    try:
        b = build(tp, cfg)
    except Exception as e:  # noqa: BLE001
        return {
            "template": tp.name,
            "obligations": [dataclasses.asdict(Obl(tp.name, "build", f"harness-error:{type(e).__name__}:{e}", detail=traceback.format_exc()))],
            "functions": [],
            "constructs": [],
            "seconds": time.time() - t0,
            "status": {},
            "artefacts": {},
        }
    obls: list[Obl] = []
    hsh = int(hashlib.sha1(tp.name.encode()).hexdigest()[:8], 16)
    rng = random.Random(cfg.seed * 7919 + hsh)
    CROSS["on"] = cfg.cross_check_mod > 0 and (hsh % cfg.cross_check_mod) == (cfg.seed % cfg.cross_check_mod)
    CROSS["log"] = []
    try:
        if tp.expect == "sql-refuses":
            o = Obl(tp.name, "sql-refuses")
            o.status = "structural-ok" if str(b.status.get("sqlite", "")).startswith("refused") else "structural-fail"
            o.detail = b.status
            obls.append(o)
        if cfg.types_check:
            obls += type_obligations(tp, b, cfg, rng)
            raise _Done()
        if cfg.structural_only:
            obls += structural(tp, b)
            raise _Done()
        if tp.mode == "equiv":
            for be in tp.backends:
                obls += check_pair(tp, b, cfg, be, be + "2", want_seq=tp.seq, known=known)
            if b.status.get("ref") == "ok":
                obls.append(vacuity(tp, b, cfg))
        else:
            if b.status.get("ref") != "ok":
                accepted = [be for be in tp.backends if b.status.get(be) == "ok" or str(b.status.get(be, "")).startswith("unsupported")]
                if str(b.status.get("ref", "")).startswith("refused") and accepted:
                    # the documentation (REF) refuses this pipeline but the library builds it
                    obls.append(Obl(tp.name, "ref-refuses-but-accepted", "violation", detail={"ref": b.status.get("ref"), "accepted_on": accepted}))
                else:
                    obls.append(Obl(tp.name, "ref", f"harness-error:{b.status.get('ref')}"))
            else:
                obls.append(vacuity(tp, b, cfg))
                if tp.mode == "ref":
                    for be in tp.backends:
                        obls += check_pair(tp, b, cfg, be, "ref", want_seq=tp.seq, known=known)
                    if tp.prog2 is not None:
                        for be in tp.backends:
                            obls += check_pair(tp, b, cfg, be, be + "2", want_seq=tp.seq, known=known)
                if len(tp.backends) == 2:
                    obls += check_pair(tp, b, cfg, "polars", "sqlite", want_seq=tp.seq, known=known)
                for be in tp.backends:
                    if b.status.get(be) == "ok":
                        obls.append(perturbation(tp, b, cfg, be))
                        break
            obls += structural(tp, b)
        if cfg.validate_samples:
            obls += validate_models(tp, b, cfg, rng)
        for be in tp.backends:
            if str(b.status.get(be, "")).startswith("unsupported") and b.status.get("ref") == "ok":
                obls.append(fallback_concrete(tp, b, cfg, rng, be))
    except _Done:
        pass
    except Exception as e:  # noqa: BLE001
        obls.append(Obl(tp.name, "analyse", f"harness-error:{type(e).__name__}:{e}", detail=traceback.format_exc()))
    arte = {}
    if "sqlite" in b.artefact:
        arte["sql"] = b.artefact["sqlite"] if isinstance(b.artefact["sqlite"], str) else "<polars plan after collect()>"
    if "polars" in b.artefact:
        arte["plan_sha1"] = hashlib.sha1(json.dumps(b.artefact["polars"], sort_keys=True, default=str).encode()).hexdigest()[:12]
    return {
        "template": tp.name,
        "props": list(tp.props),
        "obligations": [dataclasses.asdict(o) for o in obls],
        "functions": sorted(b.functions),
        "constructs": sorted(b.constructs),
        "defs": sorted({lbl for lbl, _ in b.world.defs}),
        "notes": b.notes,
        "status": b.status,
        "artefacts": arte,
        "seconds": time.time() - t0,
        "cross_solver": list(CROSS["log"]),
    }
