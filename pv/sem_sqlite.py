"""SEM_sqlite: symbolic semantics of the SQL text produced by `build_query()` on a
SQLite-backed table, as SQLite 3.40 executes it, over the bounded relational kernel.

Typing is static (INTEGER / REAL / TEXT / BOOL-as-0/1 / NULL per expression), which is
exact for the statements the backend emits from well-typed pipelines."""

from __future__ import annotations

import z3

from . import kernel as K
from . import strings as S
import datetime as _dt
import re as _re

from .kernel import BOOL, DATE, DT, DT0, DTX, INT, NULLT, REAL, STR, TEMPORAL, Cell, Ctx, Rel, SortKey, Unsupported
from .sqlparse import parse

AGG_FUNCS = {"sum", "count", "avg", "total", "group_concat", "string_agg"}
AGG_OR_SCALAR = {"min", "max"}  # aggregate when called with one argument


class Env:
    """FROM-clause scope: physical column names 'alias.col' in `rel`."""

    def __init__(self, rel: Rel, cols):
        self.rel = rel
        self.cols = cols  # list of (alias, col, physical)

    def resolve(self, alias, col):
        hits = [p for a, c, p in self.cols if c == col and (alias is None or a == alias)]
        # SQLite compares column names case-insensitively (also when quoted); of two columns of a
        # derived table whose names differ only in case the FIRST one is taken (observed, 3.40)
        ci = [p for a, c, p in self.cols if c.lower() == col.lower() and (alias is None or a == alias)]
        if len(ci) > len(hits):
            return ci[0]
        if len(hits) != 1:
            raise Unsupported(f"column reference {alias}.{col}: {len(hits)} candidates")
        return hits[0]


class SqliteSem:
    def __init__(self, tables, *, str_len=4):
        """tables: name -> Rel (names = column names)"""
        self.tables = tables
        self.side = []
        self.notes = []
        self.str_len = str_len
        self.constructs = set()
        self.storage = {}  # output label -> static storage kind (for C12)
        self.flags = set()

    def run(self, sql: str, result_kinds=None) -> Rel:
        """result_kinds: output name -> kind of the SQLAlchemy result processor of that
        column ('date' | 'datetime' | 'bool' | None), read from the real Select; it decides
        how the driver-level value (SQLite has only INTEGER / REAL / TEXT) reaches Python."""
        out = self.stmt(parse(sql))
        for nme in out.names:
            kind = (result_kinds or {}).get(nme, "legacy" if result_kinds is None else None)
            out.data[nme] = [self.processed(c, kind) for c in out.data[nme]]
        return out

    def processed(self, c: Cell, kind) -> Cell:
        if c.ty == NULLT:
            return c
        if kind == "legacy":
            return Cell(DT, c.null, c.val) if c.ty == DT0 else (self.decode_x(c) if c.ty == DTX else c)
        if kind == "datetime":  # datetime.fromisoformat: all three text forms parse
            if c.ty == STR:
                c = self.temporal_lit(c) or c
            if c.ty == DATE:
                return Cell(DT, c.null, c.val * K.US_DAY)
            if c.ty in (DT, DT0):
                return Cell(DT, c.null, c.val)
            if c.ty == DTX:
                return self.decode_x(c)
            raise Unsupported(f"DateTime result processor on {c.ty}")
        if kind == "date":  # date.fromisoformat: only 'YYYY-MM-DD'
            if c.ty == STR:
                c = self.temporal_lit(c) or c
            if c.ty == DATE:
                return c
            raise Unsupported(f"Date result processor on {c.ty} text")
        if kind == "bool":  # int -> bool
            if c.ty == INT:
                return Cell(BOOL, c.null, c.val != 0)
            return c
        # no processor: the driver value as it is
        if c.ty == BOOL:
            return K.as_ty(c, INT)
        if c.ty in TEMPORAL:
            return self.to_text(c)
        return c

    # ------------------------------------------------------------------ temporal text
    # SQLite has no temporal storage class: SQLAlchemy stores Date as 'YYYY-MM-DD' and
    # DateTime as 'YYYY-MM-DD HH:MM:SS.ffffff'; date()/datetime() return 'YYYY-MM-DD' /
    # 'YYYY-MM-DD HH:MM:SS'.  Cells carry the instant (kernel DATE / DT payload) and the
    # static text form (DATE / DT / DT0); comparisons are *text* comparisons.
    _RE_DATE = _re.compile(r"\d{4}-\d{2}-\d{2}$")
    _RE_DT0 = _re.compile(r"\d{4}-\d{2}-\d{2} \d{2}:\d{2}:\d{2}$")
    _RE_DT6 = _re.compile(r"\d{4}-\d{2}-\d{2} \d{2}:\d{2}:\d{2}\.\d{6}$")

    def temporal_lit(self, c: Cell):
        """a constant TEXT cell in one of the three temporal text forms -> temporal cell"""
        if c.ty != STR or not z3.is_string_value(c.val):
            return None
        t = c.val.as_string()
        try:
            if self._RE_DATE.match(t):
                return Cell(DATE, c.null, z3.IntVal(K.date_to_days(_dt.date.fromisoformat(t))))
            if self._RE_DT0.match(t):
                return Cell(DT0, c.null, z3.IntVal(K.dt_to_us(_dt.datetime.fromisoformat(t))))
            if self._RE_DT6.match(t):
                return Cell(DT, c.null, z3.IntVal(K.dt_to_us(_dt.datetime.fromisoformat(t))))
        except ValueError:
            return None
        return None

    def harmonise(self, cells):
        """text constants next to temporal operands are temporal text"""
        if not any(c.ty in TEMPORAL for c in cells):
            return cells
        out = []
        for c in cells:
            if c.ty == STR:
                t = self.temporal_lit(c)
                if t is None:
                    raise Unsupported("temporal value combined with non-temporal text")
                c = t
            out.append(c)
        tys = {c.ty for c in out if c.ty != NULLT}
        if len(tys) > 1:
            self.flags.add("mixed-temporal-text")
        return out

    @staticmethod
    def text_key(c: Cell):
        """Int term whose order is the BINARY text order of the temporal text of c"""
        M = 1_000_000
        D = 1 + 86_400 * (M + 2)
        if c.ty == DATE:
            return c.val * D
        inst = c.val / 4 if c.ty == DTX else c.val
        day, sod = inst / K.US_DAY, inst % K.US_DAY
        sec, us = sod / M, sod % M
        k0 = day * D + 1 + sec * (M + 2)
        if c.ty == DT0:
            return k0
        if c.ty == DT:
            return k0 + 1 + us
        form = c.val % 4
        return K.If(form == 0, day * D, K.If(form == 1, k0, k0 + 1 + us))

    @staticmethod
    def decode_x(c: Cell) -> Cell:
        """instant (DT) of a DTX cell (payload: instant * 4 + form; form 0 = date text,
        1 = datetime text without fraction, 2 = with fraction)"""
        return Cell(DT, c.null, c.val / 4)

    def to_x(self, c: Cell) -> Cell:
        if c.ty == DATE:
            return Cell(DTX, c.null, c.val * K.US_DAY * 4)
        if c.ty == DT0:
            return Cell(DTX, c.null, c.val * 4 + 1)
        if c.ty == DT:
            return Cell(DTX, c.null, c.val * 4 + 2)
        return c

    def compare(self, op, a: Cell, b: Cell) -> Cell:
        a, b = self.harmonise([a, b])
        if a.ty in TEMPORAL and b.ty in TEMPORAL and a.ty != b.ty:
            ka, kb = self.text_key(a), self.text_key(b)
            return Cell(BOOL, K.Or(a.null, b.null), K._val_cmp(op, INT, ka, kb))
        return K.compare(op, a, b)

    def h_extreme_text(self, kind, cells):
        """min / max of temporal texts of different forms: BINARY text order"""
        cells = [c for c in cells if c.ty != NULLT] or cells
        res = cells[0]
        for c in cells[1:]:
            better = K._val_cmp("<" if kind == "min" else ">", INT, self.text_key(c), self.text_key(res))
            take_c = K.And(K.Not(c.null), K.Or(res.null, better))
            res = Cell(DTX, K.And(res.null, c.null), K.If(take_c, c.val, res.val))
        return res

    def same_form(self, cells, what):
        cells = self.harmonise(cells)
        tys = {c.ty for c in cells if c.ty in TEMPORAL}
        if len(tys) > 1:
            # the result's text form differs per row: carry the text-order key
            self.constructs.add(f"sql:mixed-temporal-text:{what}")
            return [self.to_x(c) for c in cells]
        return cells

    # ------------------------------------------------------------------ statements
    def stmt(self, st) -> Rel:
        results = [self.core(c) for c in st["cores"]]
        out, evalfn = results[0]
        if len(results) > 1:
            for (r, _), op in zip(results[1:], st["setops"], strict=True):
                if len(r.names) != len(out.names):
                    raise Unsupported("UNION arity mismatch")
                r2 = Rel(out.names, {o: r.data[n] for o, n in zip(out.names, r.names, strict=True)}, r.present, r.ok)
                out, _ = K.rel_concat(out, r2)
                if op == "UNION":
                    out = K.rel_distinct(out)
                self.constructs.add(f"sql:{op}")
            ok, cons = K.unspecified_order(out.n)
            self.side += cons
            out.ok = ok
            evalfn = None
        if st["order"]:
            self.constructs.add("sql:ORDER BY")
            self.notes.append("ORDER BY: order among ties is unspecified in SQL")
            keys, has_random = self.order_keys(st["order"], out, evalfn)
            out, extra = K.rel_sort(out, keys, stable=False)
            self.side += extra
        if st["limit"] is not None:
            self.constructs.add("sql:LIMIT")
            lim = self.const_int(st["limit"])
            off = self.const_int(st["offset"]) if st["offset"] is not None else 0
            if off < 0:
                off = 0
            out = K.rel_slice(out, off, lim if lim >= 0 else None)
        return out

    def const_int(self, e):
        if e[0] == "lit" and isinstance(e[1], int):
            return e[1]
        if e[0] == "neg":
            return -self.const_int(e[1])
        raise Unsupported("non-constant LIMIT/OFFSET")

    def order_keys(self, terms, out: Rel, evalfn):
        keys = []
        has_random = False
        for t in terms:
            e = t["expr"]
            if e[0] == "call" and e[1] == "random":
                has_random = True
                continue
            collate = None
            if e[0] == "collate":
                collate = e[2]
                e = e[1]
                if collate.upper() not in ("BINARY",):
                    raise Unsupported(f"collation {collate}")
            if e[0] == "col" and e[1] is None and e[2] in out.data:
                cells = out.data[e[2]]
            elif evalfn is not None:
                cells = evalfn(e)
            else:
                raise Unsupported("ORDER BY expression on compound select")
            nulls_last = t["desc"] if t["nulls"] is None else (t["nulls"] == "last")
            if any(c.ty == DTX for c in cells):
                cells = [Cell(INT, c.null, self.text_key(c)) for c in cells]
            keys.append(SortKey(cells, t["desc"], nulls_last))
        return keys, has_random

    def from_clause(self, frm) -> Env:
        env = self.tref(frm["first"])
        for kind, right, on in frm["joins"]:
            self.constructs.add(f"sql:JOIN {kind}")
            renv = self.tref(right)
            cols = env.cols + renv.cols

            def on_fn(prod, on=on, cols=cols):
                if on is None:
                    return [K.TRUE] * prod.n
                penv = Env(prod, cols)
                cells = self.expr(on, penv, Ctx.whole(prod), None)
                return [K.is_true(c) for c in cells]

            how = {"inner": "inner", "cross": "inner", "left": "left", "full": "full"}[kind]
            rel, cons = K.rel_join(env.rel, renv.rel, on_fn, how)
            self.side += cons
            env = Env(rel, cols)
        return env

    def tref(self, t) -> Env:
        if "joingroup" in t:
            return self.from_clause(t["joingroup"])
        if "table" in t:
            if t["table"] not in self.tables:
                raise Unsupported(f"unknown table {t['table']}")
            base = self.tables[t["table"]]
            alias = t["alias"]
            names = [f"{alias}.{c}" for c in base.names]
            rel = Rel(names, {f"{alias}.{c}": base.data[c] for c in base.names}, base.present, base.ok)
            return Env(rel, [(alias, c, f"{alias}.{c}") for c in base.names])
        sub = self.stmt(t["sub"])
        alias = t["alias"] or f"sub{next(K._fresh_ctr)}"
        names = [f"{alias}.{c}" for c in sub.names]
        ok = sub.ok
        if t["sub"].get("order"):
            # SQL: the order of a derived table is not carried to the enclosing query (the
            # engine may sort for a window / join / GROUP BY); rows of the outer query have an
            # unspecified order unless it has its own ORDER BY
            ok, cons = K.unspecified_order(sub.n)
            self.side += cons
            self.notes.append("ORDER BY inside a derived table: outer row order unspecified")
            self.flags.add("order-through-subquery")
        rel = Rel(names, {f"{alias}.{c}": sub.data[c] for c in sub.names}, sub.present, ok)
        self.constructs.add("sql:subquery")
        return Env(rel, [(alias, c, f"{alias}.{c}") for c in sub.names])

    def core(self, c):
        if "paren" in c:
            r = self.stmt(c["paren"])
            return r, None
        if c["from"] is None:
            rel = Rel([], {}, [K.TRUE], [z3.IntVal(0)])
            env = Env(rel, [])
        else:
            env = self.from_clause(c["from"])
        rel = env.rel
        if c["where"] is not None:
            self.constructs.add("sql:WHERE")
            w = self.expr(c["where"], env, Ctx.whole(rel), None)
            rel = K.rel_filter(rel, [K.is_true(x) for x in w])
            env = Env(rel, env.cols)
        is_agg = bool(c["group"]) or any(self.has_agg(e) for e, _ in c["cols"]) or (
            c["having"] is not None and self.has_agg(c["having"])
        )
        if is_agg:
            self.constructs.add("sql:GROUP BY" if c["group"] else "sql:aggregate-select")
            if any(self.has_window(e) for e, _ in c["cols"]):
                raise Unsupported("window function in aggregate query")
            whole = Ctx.whole(rel)
            if c["group"]:
                keycols = [self.expr(g, env, whole, None) for g in c["group"]]
                gctx = Ctx.grouped(rel, keycols)
                present = K.group_leaders(rel, keycols)
                ok, cons = K.unspecified_order(rel.n)
                self.side += cons
                erel, eenv = rel, env
                pick = lambda cells: cells  # noqa: E731
            else:
                # one output row, also for empty input: ghost viewer
                n = rel.n
                erel = Rel(
                    rel.names,
                    {k: v + [K.null_of(v[0].ty if v else NULLT)] for k, v in rel.data.items()},
                    rel.present + [K.FALSE],
                    rel.ok + [z3.IntVal(-1)],
                )
                peer = [[rel.present[j] if j < n else K.FALSE for j in range(n + 1)] for _ in range(n + 1)]
                gctx = Ctx(erel.present, peer, erel.ok)
                eenv = Env(erel, env.cols)
                present = [K.TRUE]
                ok = [z3.IntVal(0)]
                pick = lambda cells: [cells[n]]  # noqa: E731

            def evalfn(e):
                return pick(self.expr(e, eenv, Ctx.whole(erel), gctx))

            names, data = [], {}
            for e, label in c["cols"]:
                label = label or self.default_label(e)
                names.append(label)
                data[label] = evalfn(e)
            out = Rel(names, data, present, ok)
            if c["having"] is not None:
                self.constructs.add("sql:HAVING")
                h = evalfn(c["having"])
                out = K.rel_filter(out, [K.is_true(x) for x in h])
        else:
            ctx = Ctx.whole(rel)

            def evalfn(e):
                return self.expr(e, env, ctx, None)

            names, data = [], {}
            for e, label in c["cols"]:
                label = label or self.default_label(e)
                if label in data:
                    raise Unsupported("duplicate output label")
                names.append(label)
                data[label] = evalfn(e)
            out = Rel(names, data, rel.present, rel.ok)
        if c["distinct"]:
            out = K.rel_distinct(out)
            evalfn = None
        return out, evalfn

    def default_label(self, e):
        if e[0] == "col":
            return e[2]
        return f"expr{next(K._fresh_ctr)}"

    def has_agg(self, e):
        if not isinstance(e, tuple):
            return False
        if e[0] == "call":
            if e[4] is None and (e[1] in AGG_FUNCS or (e[1] in AGG_OR_SCALAR and len(e[2]) == 1)):
                return True
            if e[4] is not None:
                return False
        return any(self.has_agg(x) for x in self._children(e))

    def has_window(self, e):
        if not isinstance(e, tuple):
            return False
        if e[0] == "call" and e[4] is not None:
            return True
        return any(self.has_window(x) for x in self._children(e))

    def _children(self, e):
        for x in e[1:]:
            if isinstance(x, tuple):
                yield x
            elif isinstance(x, list):
                for y in x:
                    if isinstance(y, tuple) and len(y) == 2 and isinstance(y[0], tuple):
                        yield y[0]
                        yield y[1]
                    elif isinstance(y, tuple):
                        yield y

    # ------------------------------------------------------------------ expressions
    def expr(self, e, env: Env, ctx: Ctx, gctx):
        """cells per slot of env.rel.  gctx: aggregation context (None in row mode)."""
        n = env.rel.n
        k = e[0]
        ev = lambda x: self.expr(x, env, ctx, gctx)  # noqa: E731
        if k == "lit":
            c = K.lit(e[1])
            # a text literal in one of the three temporal text forms is a temporal value
            # (the backend renders date / datetime literals this way)
            return [self.temporal_lit(c) or c] * n
        if k == "col":
            return list(env.rel.data[env.resolve(e[1], e[2])])
        if k == "neg":
            return [K.neg(c) for c in ev(e[1])]
        if k == "collate":
            return ev(e[1])
        if k == "arith":
            op = e[1]
            a, b = ev(e[2]), ev(e[3])
            return [self.arith(op, a[i], b[i]) for i in range(n)]
        if k == "concat":
            a, b = ev(e[1]), ev(e[2])
            return [K.arith("+", self.to_text(a[i]), self.to_text(b[i])) for i in range(n)]
        if k == "cmp":
            a, b = ev(e[2]), ev(e[3])
            return [self.compare(e[1], a[i], b[i]) for i in range(n)]
        if k == "and":
            a, b = ev(e[1]), ev(e[2])
            return [K.k_and(a[i], b[i]) for i in range(n)]
        if k == "or":
            a, b = ev(e[1]), ev(e[2])
            return [K.k_or(a[i], b[i]) for i in range(n)]
        if k == "not":
            return [K.k_not(c) for c in ev(e[1])]
        if k == "is":
            a, b = ev(e[2]), ev(e[3])
            out = [K.from_bool(K.null_safe_eq(a[i], b[i])) for i in range(n)]
            return [K.k_not(c) for c in out] if e[1] else out
        if k == "in":
            x = ev(e[2])
            items = [ev(it) for it in e[3]]
            out = []
            for i in range(n):
                r = K.from_bool(K.FALSE)
                if not items:
                    out.append(r)
                    continue
                for it in items:
                    r = K.k_or(r, self.compare("==", x[i], it[i]))
                out.append(K.k_not(r) if e[1] else r)
            return out
        if k == "like":
            x = ev(e[2])
            pat = self.const_str(e[3])
            esc = self.const_str(e[4]) if e[4] is not None else None
            if pat is None or (e[4] is not None and (esc is None or len(esc) != 1)):
                raise Unsupported("non-constant LIKE pattern")
            self.constructs.add("sql:LIKE")
            rx = S.like_regex(pat, esc)
            out = [Cell(BOOL, c.null, z3.InRe(c.val, rx)) if c.ty == STR else K.null_of(BOOL) for c in x]
            return [K.k_not(c) for c in out] if e[1] else out
        if k == "case":
            whens = [(ev(c), ev(v)) for c, v in e[1]]
            els = ev(e[2]) if e[2] is not None else [K.lit(None)] * n
            out = []
            for i in range(n):
                vals = self.same_form([v[i] for _, v in whens] + [els[i]], "CASE")
                out.append(K.c_select([(K.is_true(c[i]), vals[j]) for j, (c, _) in enumerate(whens)], vals[-1]))
            return out
        if k == "cast":
            inner = e[1]
            if inner[0] == "call" and inner[1] == "strftime" and e[2].upper() in ("INTEGER", "BIGINT", "INT"):
                return self.strftime(inner, ev, as_int=True)
            return [self.cast(c, e[2]) for c in ev(e[1])]
        if k == "call":
            return self.call(e, env, ctx, gctx)
        raise Unsupported(f"sql expr {k}")

    def const_str(self, e):
        if e is None:
            return None
        if e[0] == "lit" and isinstance(e[1], str):
            return e[1]
        if e[0] == "concat":
            a, b = self.const_str(e[1]), self.const_str(e[2])
            if a is None or b is None:
                return None
            return a + b
        return None

    def to_text(self, c: Cell) -> Cell:
        if c.ty in (STR, NULLT):
            return c
        if c.ty == INT:
            return S.int_to_str(c)
        if c.ty == BOOL:
            return S.int_to_str(K.as_ty(c, INT))
        if c.ty == REAL:
            return S.real_to_str(c)
        if c.ty == DATE:
            return S.date_to_str(c)
        if c.ty in (DT, DT0):
            return S.dt_to_str(c, frac=(c.ty == DT))
        if c.ty == DTX:
            inst, form = self.decode_x(c), c.val % 4
            return Cell(STR, c.null, K.If(form == 0, S.date_text(inst.val / K.US_DAY), K.If(form == 1, S.dt_to_str(inst, frac=False).val, S.dt_to_str(inst).val)))
        raise Unsupported("real -> text")

    def arith(self, op, a: Cell, b: Cell) -> Cell:
        if a.ty == STR or b.ty == STR:
            raise Unsupported("arithmetic on text")
        if op in ("+", "-", "*"):
            return K.arith(op, a, b)
        ty = K.common_ty([a.ty, b.ty])
        if op == "/":
            if ty == REAL:
                return K.truediv(a, b)
            return K.int_binop("truncdiv", a, b)
        if op == "%":
            if ty == REAL:
                raise Unsupported("% on reals")
            return K.int_binop("truncmod", a, b)
        raise Unsupported(op)

    def cast(self, c: Cell, ty: str) -> Cell:
        t = ty.upper()
        if t in ("BIGINT", "INTEGER", "INT", "SMALLINT", "TINYINT"):
            tgt = INT
        elif t in ("DOUBLE", "FLOAT", "REAL", "DOUBLE PRECISION", "DOUBLE_PRECISION"):
            tgt = REAL
        elif t in ("VARCHAR", "TEXT", "CHAR", "STRING", "CLOB"):
            tgt = STR
        elif t in ("BOOLEAN", "NUMERIC", "DECIMAL"):
            # NUMERIC affinity: integers and reals are kept
            if c.ty in (INT, REAL, BOOL, NULLT):
                return c
            raise Unsupported("text -> numeric")
        elif t in ("DATE", "DATETIME", "TIMESTAMP"):
            if c.ty == NULLT:
                return c
            # NUMERIC affinity: a temporal *text* is converted to its leading integer
            raise Unsupported(f"CAST AS {ty} (numeric affinity on temporal text)")
        else:
            raise Unsupported(f"CAST AS {ty}")
        self.constructs.add(f"sql:CAST {tgt}")
        if c.ty == NULLT:
            return K.null_of(tgt)
        if c.ty == tgt:
            return c
        if tgt == INT:
            if c.ty == BOOL:
                return K.as_ty(c, INT)
            if c.ty == REAL:
                v = K.If(c.val >= 0, z3.ToInt(c.val), -z3.ToInt(-c.val))
                return Cell(INT, c.null, v)
            if c.ty == STR:
                return S.str_to_int(c, engine="sqlite")
        if tgt == REAL:
            if c.ty in (INT, BOOL):
                return K.as_ty(c, REAL)
            raise Unsupported("text -> real")
        if tgt == STR:
            return self.to_text(c)
        raise Unsupported(f"cast {c.ty} -> {tgt}")

    def call(self, e, env: Env, ctx: Ctx, gctx):
        _, name, args, star, over = e
        n = env.rel.n
        self.constructs.add(f"sqlfn:{name}" + (":over" if over is not None else ""))
        ev = lambda x: self.expr(x, env, ctx, gctx)  # noqa: E731
        if over is not None:
            return self.window(name, args, star, over, env, ctx)
        is_agg = name in AGG_FUNCS or (name in AGG_OR_SCALAR and len(args) == 1)
        if is_agg:
            if gctx is None:
                raise Unsupported("aggregate outside aggregate query")
            inner = lambda x: self.expr(x, env, ctx, None)  # noqa: E731
            return self.aggregate(name, [inner(a) for a in args], star, gctx)
        a = [ev(x) for x in args]
        if name == "abs":
            return [K.c_abs(c) for c in a[0]]
        if name == "coalesce":
            return [K.coalesce(self.same_form([x[i] for x in a], "coalesce")) for i in range(n)]
        if name == "date":
            if len(a) != 1:
                raise Unsupported("date() with modifiers")
            return [self.sql_date(c) for c in a[0]]
        if name == "datetime":
            if len(a) != 1:
                raise Unsupported("datetime() with modifiers")
            return [self.sql_datetime(c) for c in a[0]]
        if name == "strftime":
            return self.strftime(e, ev, as_int=False)
        if name in ("max", "min"):
            # scalar multi-argument form: NULL if any argument is NULL
            out = []
            for i in range(n):
                cells = self.same_form([x[i] for x in a], name)
                r = self.h_extreme_text(name, cells) if any(c.ty == DTX for c in cells) else K.h_extreme(name, cells)
                anynull = K.Or(*[c.null for c in cells])
                out.append(Cell(r.ty, K.Or(r.null, anynull), r.val) if r.ty != NULLT else r)
            return out
        if name == "length":
            return [Cell(INT, c.null, z3.Length(c.val)) if c.ty == STR else K.null_of(INT) for c in a[0]]
        if name in ("upper", "lower"):
            return [S.change_case(c, name == "upper", self.str_len) for c in a[0]]
        if name == "trim":
            if len(a) != 1:
                raise Unsupported("trim with characters")
            return [S.strip_ws(c, self.str_len, S.SQLITE_TRIM, side=self.side) for c in a[0]]
        if name == "replace":
            pat, rep = self.const_str(args[1]), self.const_str(args[2])
            if pat is None or rep is None:
                raise Unsupported("non-constant replace arguments")
            if pat == "":
                return a[0]
            return [S.replace_all_literal(c, pat, rep, self.str_len) for c in a[0]]
        if name == "substr":
            out = []
            for i in range(n):
                x, st = a[0][i], a[1][i]
                ln = a[2][i] if len(a) > 2 else None
                if x.ty != STR or st.ty != INT:
                    raise Unsupported("substr types")
                nl = K.Or(x.null, st.null, ln.null if ln is not None else K.FALSE)
                # only the form with start >= 1 and length >= 0 (what the backend emits)
                v = z3.SubString(x.val, st.val - 1, ln.val if ln is not None else z3.Length(x.val))
                out.append(Cell(STR, nl, v))
            return out
        if name == "round":
            d = self.const_int(args[1]) if len(args) > 1 else 0
            out = []
            for c in a[0]:
                r = S.round_half(K.as_ty(c, REAL) if c.ty in (INT, BOOL) else c, d)
                out.append(r)
            return out
        if name in ("ceil", "ceiling", "floor"):
            out = []
            for c in a[0]:
                if c.ty in (INT, NULLT):
                    out.append(c)
                elif name == "floor":
                    out.append(Cell(REAL, c.null, z3.ToReal(z3.ToInt(c.val))))
                else:
                    out.append(Cell(REAL, c.null, -z3.ToReal(z3.ToInt(-c.val))))
            return out
        if name == "random":
            return [Cell(INT, K.FALSE, K.fresh("random", z3.IntSort())) for _ in range(n)]
        raise Unsupported(f"sql function {name}")

    def _as_temporal(self, c: Cell):
        if c.ty == STR:
            t = self.temporal_lit(c)
            if t is None:
                raise Unsupported("date function on non-constant text")
            return t
        return c

    def sql_date(self, c: Cell) -> Cell:
        c = self._as_temporal(c)
        if c.ty == NULLT:
            return K.null_of(DATE)
        if c.ty == DATE:
            return c
        if c.ty in (DT, DT0):
            return Cell(DATE, c.null, c.val / K.US_DAY)
        if c.ty == DTX:
            return Cell(DATE, c.null, (c.val / 4) / K.US_DAY)
        raise Unsupported(f"date({c.ty})")

    def sql_datetime(self, c: Cell) -> Cell:
        """datetime(x): 'YYYY-MM-DD HH:MM:SS' (no fractional part in the text)"""
        c = self._as_temporal(c)
        if c.ty == NULLT:
            return K.null_of(DT0)
        if c.ty == DATE:
            return Cell(DT0, c.null, c.val * K.US_DAY)
        if c.ty == DT0:
            return c
        raise Unsupported("datetime() of a value with fractional seconds (rounding)")

    def strftime(self, e, ev, *, as_int):
        _, _, args, _, _ = e
        fmt = self.const_str(args[0])
        if fmt is None or len(args) != 2:
            raise Unsupported("strftime form")
        x = [self._as_temporal(c) for c in ev(args[1])]
        x = [self.decode_x(c) if c.ty == DTX else c for c in x]
        fields = {"%Y": ("year", 4), "%m": ("month", 2), "%d": ("day", 2), "%H": ("hour", 2), "%M": ("minute", 2), "%S": ("second", 2), "%j": ("day_of_year", 3), "%w": ("dow0", 1)}
        if fmt in fields:
            fld, width = fields[fmt]
            out = []
            for c in x:
                if c.ty not in TEMPORAL and c.ty != NULLT:
                    raise Unsupported(f"strftime on {c.ty}")
                if c.ty == DATE and fld in ("hour", "minute", "second"):
                    v = Cell(INT, c.null, z3.IntVal(0))
                elif fld == "dow0":  # 0 = Sunday
                    if c.ty == DT:
                        # SQLite 3.40 computes %w from the Julian day rounded to milliseconds:
                        # 23:59:59.9995 and later already count as the next day
                        c = Cell(DT, c.null, (c.val + 500) / 1000 * 1000)
                    w = K.temporal_field(c, "day_of_week")
                    v = Cell(INT, w.null, w.val % 7) if w.ty != NULLT else w
                else:
                    v = K.temporal_field(c, fld)
                if as_int or v.ty == NULLT:
                    out.append(v)
                else:
                    out.append(Cell(STR, v.null, S.pad(v.val, width)))
            return out
        if as_int:
            raise Unsupported(f"CAST(strftime({fmt!r})) AS INTEGER")
        # a full timestamp format: treated as a conversion between the text forms
        if fmt == "%Y-%m-%d %H:%M:%S.000000":
            out = []
            for c in x:
                if c.ty == NULLT:
                    out.append(K.null_of(DT))
                elif c.ty == DATE:
                    out.append(Cell(DT, c.null, c.val * K.US_DAY))
                elif c.ty in (DT, DT0):
                    out.append(Cell(DT, c.null, c.val - c.val % 1_000_000))
                else:
                    raise Unsupported(f"strftime on {c.ty}")
            return out
        raise Unsupported(f"strftime format {fmt!r}")

    def aggregate(self, name, argcells, star, gctx):
        if name == "count":
            if star or not argcells:
                return K.agg(gctx, "len", [None] * gctx.n)
            return K.agg(gctx, "count", argcells[0])
        x = argcells[0]
        if any(c.ty == DTX for c in x) and name in ("min", "max"):
            raise Unsupported("aggregate min/max over mixed temporal text forms")
        if name == "sum":
            return K.agg(gctx, "sum", x, empty="null")
        if name == "avg":
            return K.agg(gctx, "mean", x)
        if name in ("min", "max"):
            return K.agg(gctx, name, x)
        raise Unsupported(f"aggregate {name}")

    def window(self, name, args, star, over, env: Env, ctx: Ctx):
        rel = env.rel
        n = rel.n
        ev = lambda x: self.expr(x, env, ctx, None)  # noqa: E731
        pcols = [ev(p) for p in over["partition"]]
        wctx = Ctx.grouped(rel, pcols) if pcols else Ctx.whole(rel)
        keys, has_random = [], False
        if over["order"]:
            keys, has_random = self.order_keys(over["order"], Rel([], {}, rel.present, rel.ok), ev)
        total = has_random  # ties broken arbitrarily -> a total (but unspecified) order
        if over["order"]:
            tb = [K.fresh("wtie", z3.IntSort()) for _ in range(n)]
            self.side += [tb[i] != tb[j] for i in range(n) for j in range(i + 1, n)]
            ordpos = wctx.sort_rank(keys, stable=False, tiebreak_ok=tb)
        else:
            # no ORDER BY: the engine may process the partition in any order
            tb = [K.fresh("word", z3.IntSort()) for _ in range(n)]
            self.side += [tb[i] != tb[j] for i in range(n) for j in range(i + 1, n)]
            ordpos = wctx.sort_rank([], stable=False, tiebreak_ok=tb)
            if name in ("row_number", "lag", "lead", "rank", "dense_rank"):
                self.notes.append(f"window {name} without ORDER BY: order unspecified")
        octx = wctx.with_order(ordpos)
        if name == "row_number":
            return [Cell(INT, K.FALSE, octx.pos[i] + 1) for i in range(n)]
        if name in ("rank", "dense_rank"):
            return K.rank(wctx, keys, "min" if name == "rank" else "dense")
        if name in ("lag", "lead"):
            x = ev(args[0])
            by = self.const_int(args[1]) if len(args) > 1 else 1
            fill = ev(args[2]) if len(args) > 2 else None
            return K.shift(octx, x, by if name == "lag" else -by, fill)
        # aggregate window functions
        if over["order"]:
            if total:
                fpeer = [[K.And(wctx.peer[i][j], ordpos[j] <= ordpos[i]) for j in range(n)] for i in range(n)]
            else:
                # RANGE UNBOUNDED PRECEDING .. CURRENT ROW: peers (ties) included
                fpeer = [
                    [K.And(wctx.peer[i][j], K.Not(K.lex_before(keys, i, j))) if i != j else wctx.peer[i][j] for j in range(n)]
                    for i in range(n)
                ]
            fctx = Ctx(rel.present, fpeer, ordpos)
        else:
            fctx = wctx
        argcells = [ev(a) for a in args]
        return self.aggregate(name, argcells, star, fctx)
