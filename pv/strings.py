"""Bounded string / numeric-text helpers shared by the interpreters (z3 sequences).
All unrollings are bounded by the string-length bound L of the symbolic inputs; inputs
longer than L are outside the claim (DESIGN.md 2.1 Bounds)."""

from __future__ import annotations

import z3

from . import kernel as K
from .kernel import BOOL, INT, NULLT, REAL, STR, Cell, Unsupported

REGEX_META = set(".^$*+?()[]{}|\\")


def has_regex_meta(p: str) -> bool:
    return any(ch in REGEX_META for ch in p)


def str_pred(x: Cell, y: Cell, fn) -> Cell:
    """fn(pattern, subject) -> Bool; null-propagating."""
    if x.ty == NULLT or y.ty == NULLT:
        return K.null_of(BOOL)
    return Cell(BOOL, K.Or(x.null, y.null), fn(y.val, x.val))


def int_to_str(c: Cell) -> Cell:
    v = c.val
    s = K.If(v >= 0, z3.IntToStr(v), z3.Concat(z3.StringVal("-"), z3.IntToStr(-v)))
    return Cell(STR, c.null, s)


def real_to_str(c: Cell) -> Cell:
    """decimal text of a quarter-dyadic real (the float domain of DESIGN 4.4): both engines
    print the shortest round-trip form, i.e. '3.0', '3.25', '3.5', '3.75', '-0.25'."""
    x = c.val
    ax = K.If(x >= 0, x, -x)
    ip = z3.ToInt(ax)
    q = z3.ToInt(ax * 4) - 4 * ip
    frac = K.If(q == 0, z3.StringVal("0"), K.If(q == 1, z3.StringVal("25"), K.If(q == 2, z3.StringVal("5"), z3.StringVal("75"))))
    body = z3.Concat(z3.IntToStr(ip), z3.StringVal("."), frac)
    return Cell(STR, c.null, K.If(x < 0, z3.Concat(z3.StringVal("-"), body), body))


DIGITS = z3.Plus(z3.Range("0", "9"))
NUMERAL = z3.Concat(z3.Option(z3.Union(z3.Re("-"), z3.Re("+"))), DIGITS)


def is_plain_numeral(s):
    return z3.InRe(s, NUMERAL)


def str_to_int(c: Cell, *, strict_error=True, engine="polars") -> Cell:
    """Value of a plain numeral [+-]?[0-9]+ .  Outside that form the engines differ
    (Polars strict cast raises, SQLite parses a prefix / gives 0); the value is then an
    unconstrained fresh integer, so any query that depends on it is satisfiable and is
    decided by replay - REF excludes these inputs through DEF."""
    s = c.val
    neg = z3.PrefixOf(z3.StringVal("-"), s)
    signed = K.Or(neg, z3.PrefixOf(z3.StringVal("+"), s))
    body = K.If(signed, z3.SubString(s, 1, z3.Length(s) - 1), s)
    mag = z3.StrToInt(body)
    val = K.If(neg, -mag, mag)
    junk = K.fresh("badnum", z3.IntSort())
    return Cell(INT, c.null, K.If(is_plain_numeral(s), val, junk))


def _char_at(s, k):
    return z3.SubString(s, k, 1)


def change_case(c: Cell, upper: bool, L: int) -> Cell:
    """ASCII-only case mapping, unrolled over L characters."""
    if c.ty == NULLT:
        return K.null_of(STR)
    parts = []
    for k in range(L):
        ch = _char_at(c.val, k)
        code = z3.StrToCode(ch)
        if upper:
            m = K.If(K.And(code >= 97, code <= 122), z3.StrFromCode(code - 32), ch)
        else:
            m = K.If(K.And(code >= 65, code <= 90), z3.StrFromCode(code + 32), ch)
        parts.append(m)
    res = parts[0] if len(parts) == 1 else z3.Concat(*parts)
    return Cell(STR, c.null, res)


def _is_space(ch, chars):
    return K.Or(*[ch == z3.StringVal(x) for x in chars])


POLARS_WS = [" ", "\t", "\n", "\r", "\x0b", "\x0c"]
SQLITE_TRIM = [" "]


def strip_ws(c: Cell, L: int, chars=None, side=None) -> Cell:
    """strip the characters `chars` from both ends.  Relational encoding (the solver
    handles it far better than an unrolled loop): s = l ++ r ++ t with l, t made of strip
    characters only and r neither starting nor ending with one; the decomposition is
    unique, so the fresh variables are a definitional extension (constraints -> `side`)."""
    if c.ty == NULLT:
        return K.null_of(STR)
    chars = chars or POLARS_WS
    assert side is not None
    ws = z3.Union(*[z3.Re(z3.StringVal(ch)) for ch in chars]) if len(chars) > 1 else z3.Re(z3.StringVal(chars[0]))
    anyc = z3.Full(z3.ReSort(z3.StringSort()))
    l, r, t = (K.fresh(n, z3.StringSort()) for n in ("stripl", "stripr", "stript"))
    side += [
        c.val == z3.Concat(l, r, t),
        z3.InRe(l, z3.Star(ws)),
        z3.InRe(t, z3.Star(ws)),
        z3.Not(z3.InRe(r, z3.Union(z3.Concat(ws, anyc), z3.Concat(anyc, ws)))),
    ]
    return Cell(STR, c.null, r)


def _replace_all(s, L, match_at, plen, rep):
    """Leftmost, non-overlapping replacement of fixed-width (plen) matches.
    match_at(t) -> Bool: t starts with a match."""
    # process from the left, at most L steps; build result by recursion on the suffix
    def rec(t, fuel):
        if fuel == 0:
            return t
        ln = z3.Length(t)
        return K.If(
            ln == 0,
            t,
            K.If(
                match_at(t),
                z3.Concat(z3.StringVal(rep), rec(z3.SubString(t, plen, ln - plen), fuel - 1)),
                z3.Concat(z3.SubString(t, 0, 1), rec(z3.SubString(t, 1, ln - 1), fuel - 1)),
            ),
        )

    return rec(s, L)


def replace_all_literal(c: Cell, pat: str, rep: str, L: int) -> Cell:
    if c.ty == NULLT:
        return K.null_of(STR)
    if pat == "":
        raise Unsupported("replace_all with empty pattern")
    p = z3.StringVal(pat)
    return Cell(STR, c.null, _replace_all(c.val, L, lambda t: z3.PrefixOf(p, t), len(pat), rep))


def replace_all_regex(c: Cell, pat: str, rep: str, L: int) -> Cell:
    """Regex-mode replace for patterns made of literal characters and '.' only."""
    if c.ty == NULLT:
        return K.null_of(STR)
    if pat == "" or "$" in rep:
        raise Unsupported("regex replace: empty pattern or '$' in replacement")
    elems = []
    i = 0
    while i < len(pat):
        ch = pat[i]
        if ch == ".":
            elems.append(None)
        elif ch == "\\" and i + 1 < len(pat) and pat[i + 1] in REGEX_META:
            elems.append(pat[i + 1])
            i += 1
        elif ch in REGEX_META:
            raise Unsupported(f"regex metacharacter {ch!r} in replace pattern")
        else:
            elems.append(ch)
        i += 1

    def match_at(t):
        conj = [z3.Length(t) >= len(elems)]
        for k, e in enumerate(elems):
            if e is None:
                conj.append(_char_at(t, k) != z3.StringVal("\n"))
            else:
                conj.append(_char_at(t, k) == z3.StringVal(e))
        return K.And(*conj)

    return Cell(STR, c.null, _replace_all(c.val, L, match_at, len(elems), rep))


def round_half(c: Cell, d: int) -> Cell:
    """round to d decimals; ties are excluded by DEF, so the tie rule is irrelevant."""
    if c.ty == NULLT:
        return c
    if c.ty == INT:
        if d >= 0:
            return c
        s = 10 ** (-d)
        q = K.z_floordiv(2 * c.val + s, 2 * s)
        return Cell(INT, c.null, q * s)
    if d >= 0:
        s = z3.RealVal(10**d)
        return Cell(REAL, c.null, z3.ToReal(z3.ToInt(c.val * s + z3.RealVal("1/2"))) / s)
    s = z3.RealVal(10 ** (-d))
    return Cell(REAL, c.null, z3.ToReal(z3.ToInt(c.val / s + z3.RealVal("1/2"))) * s)


def like_regex(pattern: str, escape: str | None, *, case_insensitive=True):
    """z3 regex for a concrete LIKE pattern (SQLite: ASCII case-insensitive)."""
    parts = []
    i = 0
    anychar = z3.AllChar(z3.ReSort(z3.StringSort()))
    while i < len(pattern):
        ch = pattern[i]
        if escape is not None and ch == escape:
            if i + 1 >= len(pattern):
                raise Unsupported("dangling LIKE escape")
            parts.append(_lit_ci(pattern[i + 1], case_insensitive))
            i += 2
            continue
        if ch == "%":
            parts.append(z3.Star(anychar))
        elif ch == "_":
            parts.append(anychar)
        else:
            parts.append(_lit_ci(ch, case_insensitive))
        i += 1
    if not parts:
        return z3.Re(z3.StringVal(""))
    if len(parts) == 1:
        return parts[0]
    return z3.Concat(*parts)


def _lit_ci(ch, ci):
    if ci and ch.isascii() and ch.isalpha():
        return z3.Union(z3.Re(z3.StringVal(ch.lower())), z3.Re(z3.StringVal(ch.upper())))
    return z3.Re(z3.StringVal(ch))


# --------------------------------------------------------------------------------------
# temporal text (documented canonical formats: YYYY-MM-DD and YYYY-MM-DD HH:MM:SS.SSSSSS)


def pad(n, width):
    s = z3.IntToStr(n)
    res = s
    # fewest digits first
    for digits in range(width - 1, 0, -1):
        res = K.If(n < 10**digits, z3.Concat(z3.StringVal("0" * (width - digits)), s), res)
    return res


def date_text(days):
    y, m, d, _ = K.civil(days)
    return z3.Concat(pad(y, 4), z3.StringVal("-"), pad(m, 2), z3.StringVal("-"), pad(d, 2))


def date_to_str(c: Cell) -> Cell:
    if c.ty == NULLT:
        return K.null_of(STR)
    return Cell(STR, c.null, date_text(c.val))


def dt_to_str(c: Cell, *, frac=True, digits=6) -> Cell:
    if c.ty == NULLT:
        return K.null_of(STR)
    days, sod = c.val / K.US_DAY, c.val % K.US_DAY
    parts = [
        date_text(days), z3.StringVal(" "), pad(sod / 3_600_000_000, 2), z3.StringVal(":"),
        pad((sod / 60_000_000) % 60, 2), z3.StringVal(":"), pad((sod / 1_000_000) % 60, 2),
    ]  # fmt: skip
    if frac and digits == 3:
        parts += [z3.StringVal("."), pad((sod % 1_000_000) / 1000, 3)]
    elif frac:
        parts += [z3.StringVal("."), pad(sod % 1_000_000, 6)] + ([z3.StringVal("000")] if digits == 9 else [])
    return Cell(STR, c.null, z3.Concat(*parts))


def parse_temporal_const(c: Cell, tgt) -> Cell:
    """ISO text -> date / datetime for *constant* text only (parsing symbolic text is
    outside the model)"""
    import datetime as _dt

    if c.ty == NULLT:
        return K.null_of(tgt)
    if c.ty != STR or not z3.is_string_value(c.val):
        raise Unsupported("parsing non-constant text as date / datetime")
    t = c.val.as_string()
    try:
        if tgt == K.DATE:
            return Cell(K.DATE, c.null, z3.IntVal(K.date_to_days(_dt.date.fromisoformat(t))))
        v = _dt.datetime.fromisoformat(t)
    except ValueError as e:
        raise Unsupported(f"text {t!r} is not ISO temporal text") from e
    if len(t) < 11:
        raise Unsupported("date-only text as datetime")
    return Cell(K.DT, c.null, z3.IntVal(K.dt_to_us(v)))
