"""The real library behind the same namespace `p` that templates use (see pv/ref.py),
plus helpers that build Polars-backed / SQLite-backed source tables and obtain the two
compiled artefacts (plan JSON, SQL text) through the public API."""

from __future__ import annotations

import datetime as _dt
import json
import warnings

import polars as pl
import sqlalchemy as sqa

import pydiverse.transform as pdt
from pydiverse.transform import extended as X

from .kernel import BOOL, DATE, DT, DT_MS, DT_NS, INT, REAL, STR

warnings.filterwarnings("ignore")


class RealAPI:
    C = pdt.C
    select = staticmethod(X.select)
    drop = staticmethod(X.drop)
    rename = staticmethod(X.rename)
    mutate = staticmethod(X.mutate)
    filter = staticmethod(X.filter)
    arrange = staticmethod(X.arrange)
    slice_head = staticmethod(X.slice_head)
    group_by = staticmethod(X.group_by)
    ungroup = staticmethod(X.ungroup)
    summarize = staticmethod(X.summarize)
    alias = staticmethod(X.alias)
    join = staticmethod(X.join)
    inner_join = staticmethod(X.inner_join)
    left_join = staticmethod(X.left_join)
    full_join = staticmethod(X.full_join)
    cross_join = staticmethod(X.cross_join)
    union = staticmethod(X.union)
    when = staticmethod(X.when)
    coalesce = staticmethod(X.coalesce)
    max = staticmethod(X.max)
    min = staticmethod(X.min)
    sum = staticmethod(X.sum)
    any = staticmethod(X.any)
    all = staticmethod(X.all)
    count = staticmethod(X.count)
    row_number = staticmethod(X.row_number)
    rank = staticmethod(X.rank)
    dense_rank = staticmethod(X.dense_rank)
    lit = staticmethod(X.lit)
    Int64 = pdt.Int64
    Int8 = pdt.Int8
    Int16 = pdt.Int16
    Int32 = pdt.Int32
    Int = pdt.Int
    Float64 = pdt.Float64
    Float = pdt.Float
    String = pdt.String
    Bool = pdt.Bool
    Date = pdt.Date
    Datetime = pdt.Datetime
    is_ref = False

    @staticmethod
    def touch(tbl):
        tbl >> X.export(pdt.Polars(lazy=True))
        tbl >> X.build_query()
        repr(tbl._ast)
        tbl >> X.columns()
        return tbl

    @staticmethod
    def colname(col):
        return col.name

    @staticmethod
    def transfer_col_references(table, ref_source):
        return pdt.transfer_col_references(table, ref_source)

    @staticmethod
    def expr_table(tbl, expr):
        """the one-column table that ColExpr.export synthesises for `expr` (the real
        get_expr_as_table; `tbl` is only used by REF), column renamed to 'x'"""
        from pydiverse.transform._internal.tree.col_expr import get_expr_as_table

        r = get_expr_as_table(expr)
        (only,) = r >> X.columns()
        return r >> X.rename({only: "x"}) if only != "x" else r

    @staticmethod
    def collect(tbl, **kw):
        """the real collect().  While artefacts are being built (SYMBOLIC_BUILD) the
        natively materialised frame is swapped for a uniquely tagged dummy frame and the
        artefact of the input pipeline is registered under its scan key, so that the plan
        of later verbs can be interpreted over the symbolic result of the first stage."""
        new = tbl >> X.collect(**kw)
        if SYMBOLIC_BUILD[0]:
            sql = tbl >> X.build_query()
            stage = ("sql", sql) if sql is not None else ("plan", plan_json(tbl))
            # static column types of the collected pipeline (an empty dummy result of a
            # SQL query would otherwise be imported as null-typed columns)
            from pydiverse.transform._internal.tree import types as _types

            static = {c.name: _types.without_const(c.dtype()) for c in tbl}
            leaf = new._ast
            while hasattr(leaf, "child"):
                leaf = leaf.child  # collect() may wrap the new source in a group_by node
            names = list(leaf.df.collect_schema().names())
            schema = {n: static[n].to_polars() for n in names}
            tagged = pl.DataFrame({c: [None] * (20 + len(COLLECTED)) for c in names}, schema=schema)
            leaf.df = tagged.lazy()
            for n in names:
                leaf.cols[n]._dtype = static[n]
                if leaf.cols[n]._uuid in new._cache.cols:
                    new._cache.cols[leaf.cols[n]._uuid]._dtype = static[n]
            COLLECTED.append((scan_key(tagged), stage, names))
        return new


SYMBOLIC_BUILD = [False]
COLLECTED = []

PL_TY = {INT: pl.Int64, BOOL: pl.Boolean, STR: pl.String, REAL: pl.Float64, DATE: pl.Date, DT: pl.Datetime("us"), DT_MS: pl.Datetime("ms"), DT_NS: pl.Datetime("ns")}
SQA_TY = {INT: sqa.BigInteger, BOOL: sqa.Boolean, STR: sqa.String, REAL: sqa.Double, DATE: sqa.Date, DT: sqa.DateTime, DT_MS: sqa.DateTime, DT_NS: sqa.DateTime}
DUMMY = {INT: 0, BOOL: False, STR: "", REAL: 0.0, DATE: _dt.date(2000, 1, 1), DT: _dt.datetime(2000, 1, 1), DT_MS: _dt.datetime(2000, 1, 1), DT_NS: _dt.datetime(2000, 1, 1)}


def dummy_frame(schema, k):
    """k+1 dummy rows: the data never matters for compilation, the row count makes the
    serialised frames of different sources distinct."""
    return pl.DataFrame(
        {c: [DUMMY[ty]] * (k + 1) for c, ty in schema.items()}, schema={c: PL_TY[ty] for c, ty in schema.items()}
    )


def _pyval(v, ty):
    # replay files store temporal values as ISO text
    if isinstance(v, str) and ty == DATE:
        return _dt.date.fromisoformat(v)
    if isinstance(v, str) and ty in (DT, DT_MS, DT_NS):
        return _dt.datetime.fromisoformat(v)
    return v


def frame_from_rows(schema, rows):
    return pl.DataFrame(
        {c: [_pyval(r[c], ty) for r in rows] for c, ty in schema.items()}, schema={c: PL_TY[ty] for c, ty in schema.items()}
    )


def scan_key(df: pl.DataFrame):
    j = json.loads(df.lazy().serialize(format="json"))
    return tuple(j["DataFrameScan"]["df"])


def polars_tables(sources, frames):
    return [pdt.Table(frames[name], name=name) for name, _ in sources]


def sqlite_engine(sources, frames):
    eng = sqa.create_engine("sqlite://")
    md = sqa.MetaData()
    with eng.begin() as conn:
        for name, schema in sources:
            tbl = sqa.Table(name, md, *[sqa.Column(c, SQA_TY[ty]) for c, ty in schema.items()])
            tbl.create(conn)
            rows = frames[name].to_dicts()
            if rows:
                conn.execute(tbl.insert(), rows)
    return eng


def sqlite_tables(sources, eng):
    return [pdt.Table(name, pdt.SqlAlchemy(eng)) for name, _ in sources]


def plan_json(tbl):
    lf = tbl >> X.export(pdt.Polars(lazy=True))
    return json.loads(lf.serialize(format="json"))


def sql_text(tbl):
    return tbl >> X.build_query()


def sqlite_result_kinds(tbl):
    """output name -> kind of SQLAlchemy result processor ('date'|'datetime'|'bool'|None) of
    the Select that export() executes (read from the real compiled Select)"""
    from pydiverse.transform._internal.backend.sqlite import SqliteImpl

    sel = SqliteImpl.build_select(tbl._ast.clone())  # export() compiles a clone as well
    out = {}
    for c in sel.selected_columns:
        ty = c.type
        out[c.name] = (
            "datetime" if isinstance(ty, sqa.DateTime) else "date" if isinstance(ty, sqa.Date) else "bool" if isinstance(ty, sqa.Boolean)
            else "float" if isinstance(ty, sqa.Float) else "decimal" if isinstance(ty, sqa.Numeric) else "int" if isinstance(ty, sqa.Integer) else None
        )  # fmt: skip
    return out


def export_rows(tbl):
    df = tbl >> X.export(pdt.Polars())
    return df.columns, [tuple(r) for r in df.rows()], df
