"""C10: tables and expressions are immutable values.  Each template builds its result
from SHARED objects (an expression object reused in several verbs / under different
grouping states / on several tables; a table used again after other pipelines were
derived from it and after export / build_query).  z3 shows the compiled artefacts equal
REF of the pipeline *as written* and equal the artefacts of the same pipeline built from
fresh objects (prog2), for all data."""

from __future__ import annotations

from ..e1 import Template
from ..kernel import BOOL, INT

S = [("t", {"a": INT, "b": INT, "g": INT})]
TU = [("t", {"a": INT, "b": INT, "g": INT}), ("u", {"a": INT, "b": INT, "g": INT})]
TU2 = [("t", {"a": INT, "b": INT}), ("t2", {"a": INT, "c": INT})]


def templates(cfg):
    out = []

    def T(name, prog, prog2, sources=S, **kw):
        out.append(Template(f"c10.{name}", sources, prog, prog2=prog2, props=("C10",), **kw))

    # one aggregate expression object under two grouping states
    def agg_two_groupings(p, t):
        e = t.b.sum()
        _ = t >> p.group_by(t.g) >> p.mutate(y=e)
        return t >> p.group_by(t.a) >> p.mutate(y=e) >> p.ungroup()

    T("agg_two_groupings", agg_two_groupings, lambda p, t: t >> p.group_by(t.a) >> p.mutate(y=t.b.sum()) >> p.ungroup())

    def agg_grouped_then_ungrouped(p, t):
        e = t.b.max()
        _ = t >> p.group_by(t.g) >> p.mutate(y=e)
        return t >> p.mutate(y=e)

    T("agg_grouped_then_ungrouped", agg_grouped_then_ungrouped, lambda p, t: t >> p.mutate(y=t.b.max()))

    def agg_mutate_then_summarize(p, t):
        e = t.b.sum()
        _ = t >> p.group_by(t.g) >> p.mutate(y=e)
        return t >> p.group_by(t.a) >> p.summarize(s=e)

    T("agg_mutate_then_summarize", agg_mutate_then_summarize, lambda p, t: t >> p.group_by(t.a) >> p.summarize(s=t.b.sum()))

    def agg_summarize_then_mutate(p, t):
        e = t.b.min()
        _ = t >> p.group_by(t.g) >> p.summarize(s=e)
        return t >> p.group_by(t.a) >> p.mutate(y=e) >> p.ungroup()

    T("agg_summarize_then_mutate", agg_summarize_then_mutate, lambda p, t: t >> p.group_by(t.a) >> p.mutate(y=t.b.min()) >> p.ungroup())

    def window_two_groupings(p, t):
        e = p.row_number(arrange=[t.b.nulls_last(), t.a.nulls_last(), t.g.nulls_last()])
        _ = t >> p.group_by(t.g) >> p.mutate(r=e)
        return t >> p.group_by(t.a) >> p.mutate(r=e) >> p.ungroup()

    T("window_two_groupings", window_two_groupings, lambda p, t: t >> p.group_by(t.a) >> p.mutate(r=p.row_number(arrange=[t.b.nulls_last(), t.a.nulls_last(), t.g.nulls_last()])) >> p.ungroup())

    def nested_agg_in_expr(p, t):
        e = t.b - t.b.min()
        _ = t >> p.group_by(t.g) >> p.mutate(y=e)
        return t >> p.group_by(t.a) >> p.mutate(y=e) >> p.ungroup()

    T("nested_agg_in_expr", nested_agg_in_expr, lambda p, t: t >> p.group_by(t.a) >> p.mutate(y=t.b - t.b.min()) >> p.ungroup())

    # C.-expressions reused on two tables / after the name changed its meaning
    def cexpr_two_tables(p, t, u):
        e = p.C.a * 2 + p.C.b
        _ = t >> p.mutate(y=e)
        return u >> p.mutate(y=e)

    T("cexpr_two_tables", cexpr_two_tables, lambda p, t, u: u >> p.mutate(y=p.C.a * 2 + p.C.b), TU)

    def cexpr_twice(p, t):
        e = p.C.a + 1
        return t >> p.mutate(a=e) >> p.mutate(a=e)

    T("cexpr_twice", cexpr_twice, lambda p, t: t >> p.mutate(a=p.C.a + 1) >> p.mutate(a=p.C.a + 1))

    def case_twice(p, t):
        shrink = p.when(p.C.a > 2).then(p.C.a - 2).otherwise(p.C.a)
        return t >> p.mutate(a=shrink) >> p.mutate(a=shrink)

    T("case_twice", case_twice, lambda p, t: t >> p.mutate(a=p.when(p.C.a > 2).then(p.C.a - 2).otherwise(p.C.a)) >> p.mutate(a=p.when(p.C.a > 2).then(p.C.a - 2).otherwise(p.C.a)))

    def case_after_swap(p, t):
        e = p.when(p.C.a > 0).then(p.C.b).otherwise(0)
        return t >> p.mutate(x=e) >> p.rename({"a": "b", "b": "a"}) >> p.mutate(y=e)

    T("case_after_swap", case_after_swap, lambda p, t: t >> p.mutate(x=p.when(p.C.a > 0).then(p.C.b).otherwise(0)) >> p.rename({"a": "b", "b": "a"}) >> p.mutate(y=p.when(p.C.a > 0).then(p.C.b).otherwise(0)))

    def when_base_extended(p, t):
        base = p.when(t.a > 1).then(10)
        ext = base.when(t.b > 1).then(20)
        return t >> p.mutate(x=base, y=ext.otherwise(0), z=base.otherwise(-1))

    T("when_base_extended", when_base_extended, lambda p, t: t >> p.mutate(x=p.when(t.a > 1).then(10), y=p.when(t.a > 1).then(10).when(t.b > 1).then(20).otherwise(0), z=p.when(t.a > 1).then(10).otherwise(-1)))

    def when_clause_two_thens(p, t):
        w = p.when(t.a > 0)
        e1 = w.then(1)
        e2 = w.then(2)
        return t >> p.mutate(x=e1, y=e2)

    T("when_clause_two_thens", when_clause_two_thens, lambda p, t: t >> p.mutate(x=p.when(t.a > 0).then(1), y=p.when(t.a > 0).then(2)))

    def filter_pred_reused(p, t):
        pr = (t.a > 0) & t.b.is_not_null()
        x = t >> p.filter(pr)
        return x >> p.mutate(f=pr, k=pr | (t.g > 1))

    T("filter_pred_reused", filter_pred_reused, lambda p, t: t >> p.filter((t.a > 0) & t.b.is_not_null()) >> p.mutate(f=(t.a > 0) & t.b.is_not_null(), k=((t.a > 0) & t.b.is_not_null()) | (t.g > 1)))

    def order_reused(p, t):
        o = t.b.descending().nulls_last()
        x = t >> p.arrange(o, t.a.nulls_last(), t.g.nulls_last())
        return x >> p.mutate(r=p.rank(arrange=[o]))

    T("order_reused", order_reused, lambda p, t: t >> p.arrange(t.b.descending().nulls_last(), t.a.nulls_last(), t.g.nulls_last()) >> p.mutate(r=p.rank(arrange=[t.b.descending().nulls_last()])))

    # tables reused after other pipelines, exports and query builds
    def table_reused_after_export(p, t):
        x = t >> p.mutate(d=t.a + t.b)
        p.touch(x)
        y = x >> p.filter(x.d > 0) >> p.mutate(d=x.d * 2)
        p.touch(y)
        p.touch(x)
        return x >> p.mutate(e=x.d - 1)

    T("table_reused_after_export", table_reused_after_export, lambda p, t: t >> p.mutate(d=t.a + t.b) >> p.mutate(e=p.C.d - 1))

    def grouped_table_reused(p, t):
        tg = t >> p.group_by(t.g)
        _ = tg >> p.group_by(t.a, add=True) >> p.mutate(z=t.b.sum())
        return tg >> p.mutate(y=t.b.sum()) >> p.ungroup()

    T("grouped_table_reused_add", grouped_table_reused, lambda p, t: t >> p.group_by(t.g) >> p.mutate(y=t.b.sum()) >> p.ungroup())

    def grouped_table_reused_summarize(p, t):
        tg = t >> p.group_by(t.g)
        _ = tg >> p.summarize(n=p.count())
        _ = tg >> p.ungroup() >> p.mutate(q=t.b.max())
        return tg >> p.summarize(s=t.b.sum(), n=p.count())

    T("grouped_table_reused_summarize", grouped_table_reused_summarize, lambda p, t: t >> p.group_by(t.g) >> p.summarize(s=t.b.sum(), n=p.count()))

    def alias_does_not_rename_input(p, t, t2):
        _ = t2 >> p.alias("s")
        return t >> p.inner_join(t2, t.a == t2.a)

    T("alias_does_not_rename_input", alias_does_not_rename_input, lambda p, t, t2: t >> p.inner_join(t2, t.a == t2.a), TU2)

    def join_inputs_reused(p, t, t2):
        r = t2 >> p.filter(t2.c > 0)
        _ = t >> p.left_join(r, t.a == r.a)
        _ = t >> p.inner_join(r >> p.mutate(c=r.c + 1), t.a == r.a)
        return t >> p.left_join(r, t.a == r.a)

    T("join_inputs_reused", join_inputs_reused, lambda p, t, t2: t >> p.left_join(t2 >> p.filter(t2.c > 0), t.a == t2.a), TU2)

    def subquery_base_reused(p, t):
        base = t >> p.mutate(r=t.b.sum(partition_by=t.g)) >> p.alias("z") >> p.select(p.C.a, p.C.r)
        _ = base >> p.filter(base.r > 1)
        return base >> p.filter(base.r < 4)

    def subquery_base_fresh(p, t):
        base = t >> p.mutate(r=t.b.sum(partition_by=t.g)) >> p.alias("z") >> p.select(p.C.a, p.C.r)
        return base >> p.filter(base.r < 4)

    T("subquery_base_reused", subquery_base_reused, subquery_base_fresh)

    def slice_base_reused(p, t):
        base = t >> p.arrange(t.a.nulls_last(), t.b.nulls_last(), t.g.nulls_last()) >> p.slice_head(2) >> p.alias("z")
        _ = base >> p.filter(base.a > 0)
        _ = base >> p.summarize(n=p.count())
        return base >> p.group_by(base.g) >> p.summarize(n=p.count())

    def slice_base_fresh(p, t):
        base = t >> p.arrange(t.a.nulls_last(), t.b.nulls_last(), t.g.nulls_last()) >> p.slice_head(2) >> p.alias("z")
        return base >> p.group_by(base.g) >> p.summarize(n=p.count())

    T("slice_base_reused", slice_base_reused, slice_base_fresh)
    # argument *containers* passed to verbs are the caller's objects too: a list of join keys,
    # a list of arrange keys / group_by columns, a rename / map dict reused for a second verb
    def on_list_reused(p, t, t2):
        keys = ["a"]
        _ = t >> p.inner_join(t2, keys)
        left = t >> p.mutate(a=t.b)  # the name `a` now denotes another column of the left table
        return left >> p.inner_join(t2, keys)

    T("on_list_reused", on_list_reused, lambda p, t, t2: t >> p.mutate(a=t.b) >> p.inner_join(t2, ["a"]), TU2, nmax=2)

    def on_list_reused_other_tables(p, t, u):
        keys = ["a", "g"]
        _ = t >> p.left_join(u, keys, suffix="_x")
        return u >> p.left_join(t, keys, suffix="_y")

    T("on_list_reused_other_tables", on_list_reused_other_tables, lambda p, t, u: u >> p.left_join(t, ["a", "g"], suffix="_y"), TU, nmax=2)

    def on_list_mixed_reused(p, t, t2):
        keys = ["a", t.b <= t2.c]
        _ = t >> p.inner_join(t2, keys)
        return t >> p.filter(t.b > 0) >> p.left_join(t2 >> p.filter(t2.c.is_not_null()), keys)

    T("on_list_mixed_reused", on_list_mixed_reused, lambda p, t, t2: t >> p.filter(t.b > 0) >> p.left_join(t2 >> p.filter(t2.c.is_not_null()), ["a", t.b <= t2.c]), TU2, nmax=2)

    def rename_dict_reused(p, t):
        m = {"a": "x"}
        _ = t >> p.rename(m)
        _ = t >> p.rename(m) >> p.mutate(a=p.C.x)
        return t >> p.select(t.a, t.b) >> p.rename(m)

    T("rename_dict_reused", rename_dict_reused, lambda p, t: t >> p.select(t.a, t.b) >> p.rename({"a": "x"}))

    def arrange_list_reused(p, t):
        ks = [t.a.nulls_last(), t.b.nulls_last(), t.g.nulls_last()]
        _ = t >> p.arrange(*ks) >> p.slice_head(1)
        _ = t >> p.mutate(r=p.row_number(arrange=ks))
        return t >> p.filter(t.g > 0) >> p.mutate(r=p.row_number(arrange=ks), s=t.b.shift(1, arrange=ks))

    T("arrange_list_reused", arrange_list_reused, lambda p, t: t >> p.filter(t.g > 0) >> p.mutate(r=p.row_number(arrange=[t.a.nulls_last(), t.b.nulls_last(), t.g.nulls_last()]), s=t.b.shift(1, arrange=[t.a.nulls_last(), t.b.nulls_last(), t.g.nulls_last()])), nmax=2)

    def map_dict_reused(p, t):
        m = {0: 5, (1, 2): 7}
        _ = t >> p.mutate(y=t.a.map(m))
        return t >> p.mutate(y=t.b.map(m, default=t.a))

    T("map_dict_reused", map_dict_reused, lambda p, t: t >> p.mutate(y=t.b.map({0: 5, (1, 2): 7}, default=t.a)))
    return out
