"""C11 (structural part): the verb histories of all other corpora, re-tagged so that the
metadata obligations (columns() / iteration / len / in / dir / [] vs the names and order
of the compiled select list of both backends) count for C11."""

from __future__ import annotations

import dataclasses
import importlib

from ..e1 import Template
from ..kernel import INT

S = [("t", {"a": INT, "b": INT, "c": INT})]
TU = [("t", {"a": INT, "b": INT, "c": INT}), ("u", {"a": INT, "b": INT, "x": INT})]


def own(cfg):
    out = []

    def T(name, prog, sources=S):
        out.append(Template(f"c11.{name}", sources, prog, props=("C11",)))

    T("select_reorder", lambda p, t: t >> p.select(t.c, t.a))
    T("select_reorder_names", lambda p, t: t >> p.select("c", "b", "a"))
    T("select_twice", lambda p, t: t >> p.select(t.c, t.a, t.b) >> p.select(t.b, t.c))
    T("mutate_overwrite_first", lambda p, t: t >> p.mutate(a=t.a + 1))
    T("mutate_overwrite_mid_and_new", lambda p, t: t >> p.mutate(z=t.a, b=t.b * 2, y=t.c))
    T("mutate_overwrite_all", lambda p, t: t >> p.mutate(c=t.a, b=t.b, a=t.c))
    T("mutate_overwrite_then_select", lambda p, t: t >> p.mutate(a=t.a + 1) >> p.select(p.C.a, t.c) >> p.mutate(c=p.C.a))
    T("rename_then_overwrite", lambda p, t: t >> p.rename({"a": "z"}) >> p.mutate(b=t.a) >> p.rename({"z": "a"}))
    T("rename_chain", lambda p, t: t >> p.rename({"a": "b", "b": "c", "c": "a"}) >> p.rename({"a": "x"}))
    T("drop_then_readd", lambda p, t: t >> p.drop(t.b) >> p.mutate(b=t.b) >> p.mutate(d=1))
    T("summarize_overwrite_key_last", lambda p, t: t >> p.group_by(t.a) >> p.summarize(s=t.b.sum(), a=t.c.max()))
    T("summarize_overwrite_key_first", lambda p, t: t >> p.group_by(t.a, t.b) >> p.summarize(a=t.c.max()))
    T("summarize_two_keys", lambda p, t: t >> p.group_by(t.b, t.a) >> p.summarize(n=p.count()))
    T("summarize_key_selected_away", lambda p, t: t >> p.group_by(t.a) >> p.select(t.b, t.a) >> p.summarize(n=p.count()))
    T("summarize_renamed_key", lambda p, t: t >> p.rename({"a": "k"}) >> p.group_by(t.a) >> p.summarize(n=p.count(), a=t.b.min()))
    T("alias_after_reorder", lambda p, t: t >> p.select(t.c, t.a) >> p.mutate(a=t.a) >> p.alias("z") >> p.mutate(q=p.C.c))
    T("join_suffix_all", lambda p, t, u: t >> p.inner_join(u, t.a == u.a), TU)
    T("join_suffix_user", lambda p, t, u: t >> p.left_join(u, t.a == u.a, suffix="_2"), TU)
    T("join_reordered_sides", lambda p, t, u: t >> p.select(t.c, t.a) >> p.left_join(u >> p.select(u.x, u.a), t.a == u.a), TU)
    T("join_then_overwrite", lambda p, t, u: t >> p.inner_join(u, t.a == u.a) >> p.mutate(a=u.x) >> p.select(p.C.x_u if False else p.C.a, t.b), TU)
    T("join_third", lambda p, t, u: t >> p.inner_join(u, t.a == u.a) >> p.inner_join(u >> p.alias("u"), t.a == p.C.x), TU)
    # a hidden and a visible column of the same name carried through a SQL subquery
    kept = lambda p, t: t >> p.mutate(a=t.a + 1) >> p.arrange(t.b.nulls_last(), t.c.nulls_last(), t.a.nulls_last()) >> p.slice_head(2) >> p.alias(keep_col_refs=True)  # noqa: E731
    T("subquery_hidden_namesake_filter", lambda p, t: kept(p, t) >> p.filter(t.a > 1))
    T("subquery_hidden_namesake_mutate", lambda p, t: kept(p, t) >> p.filter(t.c > 0) >> p.mutate(w=t.a))
    T("subquery_hidden_namesake_twice", lambda p, t: t >> p.mutate(a=t.a + 1, b=t.b * 2) >> p.arrange(t.c.nulls_last(), t.a.nulls_last(), t.b.nulls_last()) >> p.slice_head(2) >> p.alias(keep_col_refs=True) >> p.filter((t.a > 1) & (t.b > 1)))
    T("subquery_hidden_namesake_summarize", lambda p, t: kept(p, t) >> p.filter(t.a > 1) >> p.group_by(p.C.a) >> p.summarize(n=p.count(), m=t.a.max()))
    T("subquery_renamed_namesake", lambda p, t: t >> p.rename({"a": "z"}) >> p.mutate(a=t.b) >> p.arrange(t.c.nulls_last(), t.a.nulls_last(), t.b.nulls_last()) >> p.slice_head(2) >> p.alias(keep_col_refs=True) >> p.filter(t.a > 1))
    T("union_left_order", lambda p, t, u: t >> p.select(t.b, t.a) >> p.union(u >> p.select(u.a, u.b)), TU)
    T("union_after_overwrite", lambda p, t, u: t >> p.select(t.a, t.b) >> p.mutate(a=t.b) >> p.union(u >> p.select(u.a, u.b)), TU)
    return out


BORROW = ["pv.corpora.c02", "pv.corpora.c04", "pv.corpora.c06", "pv.corpora.c07", "pv.corpora.c08", "pv.corpora.c09", "pv.corpora.c10", "pv.corpora.c16"]


def templates(cfg):
    out = own(cfg)
    for m in BORROW:
        mod = importlib.import_module(m)
        for tp in mod.templates(cfg):
            out.append(dataclasses.replace(tp, name="c11~" + tp.name, props=("C11",)))
    return out
