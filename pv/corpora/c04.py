"""C04: summarize and aggregate functions vs REF."""

from __future__ import annotations

from ..e1 import Template
from ..kernel import BOOL, INT, REAL, STR

S = [("t", {"a": INT, "b": INT, "p": BOOL, "g": INT})]
S_STR = [("t", {"s": STR, "b": INT})]

AGGS = {
    "sum": lambda p, t: t.b.sum(),
    "mean": lambda p, t: t.b.mean(),
    "min": lambda p, t: t.b.min(),
    "max": lambda p, t: t.b.max(),
    "count_col": lambda p, t: t.b.count(),
    "count_star": lambda p, t: p.count(),
    "any": lambda p, t: t.p.any(),
    "all": lambda p, t: t.p.all(),
    "sum_expr": lambda p, t: (t.a + t.b).sum(),
    "max_plus_min": lambda p, t: t.b.max() - t.b.min(),
    "sum_filter": lambda p, t: t.b.sum(filter=t.a > 0),
    "count_filter": lambda p, t: t.b.count(filter=t.p),
    "min_filter_null": lambda p, t: t.b.min(filter=t.p),
    "mean_times": lambda p, t: t.b.mean() * 2,
    "sum_bool": lambda p, t: t.p.sum(),
    "count_star_filter": lambda p, t: p.count(filter=t.a > 0),
    "count_star_filter_null": lambda p, t: p.count(filter=t.p),
    "any_cmp": lambda p, t: (t.b > t.a).any(),
    "count_fill": lambda p, t: t.b.sum().fill_null(0),
    "when_over_agg": lambda p, t: p.when(t.b.max() > 2).then(t.b.min()).otherwise(p.count()),
}

GROUPS = {
    "none": lambda p, t: t,
    "g": lambda p, t: t >> p.group_by(t.g),
    "g_p": lambda p, t: t >> p.group_by(t.g, t.p),
    "p": lambda p, t: t >> p.group_by(t.p),
    "computed": lambda p, t: t >> p.mutate(k=t.g % 2) >> p.group_by(p.C.k),
    "add": lambda p, t: t >> p.group_by(t.g) >> p.group_by(t.p, add=True),
    # keys computed from literals only in their *values*: a case expression whose branches are all literals but whose
    # condition reads a column (round 5, C04-F), a comparison, a constant column (one group iff any row is present)
    "case_lits": lambda p, t: t >> p.mutate(k=p.when(t.g > 0).then(1).otherwise(0)) >> p.group_by(p.C.k),
    "case_lits_noelse": lambda p, t: t >> p.mutate(k=p.when(t.p).then(7)) >> p.group_by(p.C.k),
    "cmp_key": lambda p, t: t >> p.mutate(k=t.g >= 1) >> p.group_by(p.C.k),
    "const_key": lambda p, t: t >> p.mutate(k=5) >> p.group_by(p.C.k),
    "const_and_col": lambda p, t: t >> p.mutate(k=5) >> p.group_by(p.C.k, t.g),
}


def templates(cfg):
    out = []
    for gname, g in GROUPS.items():
        for aname, a in AGGS.items():
            if cfg.tier == "quick" and gname in ("g_p", "add") and aname not in ("sum", "count_star", "min", "any"):
                continue
            if cfg.tier == "quick" and gname == "computed" and aname not in ("sum", "count_col", "mean", "all", "sum_filter"):
                continue
            if cfg.tier == "quick" and gname in ("case_lits", "case_lits_noelse", "cmp_key", "const_key", "const_and_col") and aname not in ("sum", "count_star", "max"):
                continue
            tags = ("nonlinear",) if gname == "computed" or aname == "mean_times" else ()
            prog = lambda p, t, g=g, a=a: g(p, t) >> p.summarize(y=a(p, t))  # noqa: E731
            out.append(Template(f"c04.{gname}.{aname}", S, prog, props=("C04",), tags=tags))
    T = lambda name, prog, schema=S, **kw: out.append(Template(f"c04.t.{name}", schema, prog, props=("C04",), **kw))  # noqa: E731
    # several aggregates at once, grouping columns first
    T("multi", lambda p, t: t >> p.group_by(t.g) >> p.summarize(s=t.b.sum(), n=p.count(), m=t.b.max(), c=t.b.count()))
    T("multi_ungrouped", lambda p, t: t >> p.summarize(s=t.b.sum(), n=p.count(), c=t.b.count(), q=t.p.any()))
    # filter before (WHERE) and after (HAVING / on aggregated rows)
    T("regroup_ungroup_after", lambda p, t: t >> p.group_by(t.g) >> p.summarize(m=t.b.sum()) >> p.group_by(p.C.g) >> p.ungroup() >> p.mutate(z=p.C.m + 1))
    T("regroup_mutate_ungroup_after", lambda p, t: t >> p.group_by(t.g) >> p.summarize(m=t.b.sum()) >> p.group_by(p.C.m) >> p.mutate(z=p.C.g.fill_null(0) + 1) >> p.ungroup() >> p.filter(p.C.z > 1))
    # F73 (found by the generator, gen.0.828): every aggregate of an ungrouped summarize is overwritten by a constant afterwards
    T("ungrouped_then_overwrite_const", lambda p, t: t >> p.summarize(s=t.b.sum()) >> p.mutate(s=5))
    T("filter_before", lambda p, t: t >> p.filter(t.a > 0) >> p.group_by(t.g) >> p.summarize(s=t.b.sum()))
    T("filter_after", lambda p, t: t >> p.group_by(t.g) >> p.summarize(s=t.b.sum()) >> p.filter(p.C.s > 1))
    T("filter_both", lambda p, t: t >> p.filter(t.b.is_not_null()) >> p.group_by(t.g) >> p.summarize(s=t.b.sum(), n=p.count()) >> p.filter(p.C.n > 1))
    T("filter_after_on_key", lambda p, t: t >> p.group_by(t.g) >> p.summarize(n=p.count()) >> p.filter(t.g > 0))
    T("filter_after_ungrouped", lambda p, t: t >> p.summarize(n=p.count(), s=t.b.sum()) >> p.filter(p.C.n > 1))
    T("mutate_after", lambda p, t: t >> p.group_by(t.g) >> p.summarize(s=t.b.sum(), n=p.count()) >> p.mutate(r=p.C.s - p.C.n))
    T("mutate_before", lambda p, t: t >> p.mutate(d=t.a - t.b) >> p.group_by(t.g) >> p.summarize(s=p.C.d.sum(), m=p.C.d.max()))
    T("select_after", lambda p, t: t >> p.group_by(t.g, t.p) >> p.summarize(s=t.b.sum()) >> p.select(p.C.s, t.g))
    T("key_in_expr", lambda p, t: t >> p.group_by(t.g) >> p.summarize(z=t.b.max() + t.g))
    T("overwrite_key", lambda p, t: t >> p.group_by(t.g) >> p.summarize(g=t.b.sum()))
    T("after_alias", lambda p, t: t >> p.mutate(w=t.b.sum(partition_by=t.g)) >> p.alias("z") >> p.group_by(p.C.g) >> p.summarize(m=p.C.w.max(), n=p.count()))
    T("chained_via_alias", lambda p, t: t >> p.group_by(t.g, t.p) >> p.summarize(s=t.b.sum()) >> p.alias("z") >> p.group_by(p.C.g) >> p.summarize(m=p.C.s.max(), n=p.count()))
    T("arrange_after", lambda p, t: t >> p.group_by(t.g) >> p.summarize(s=t.b.sum()) >> p.arrange(t.g.nulls_first()))
    T("rename_then_group", lambda p, t: t >> p.rename({"g": "h"}) >> p.group_by(t.g) >> p.summarize(n=p.count()))
    T("group_ungroup_summarize", lambda p, t: t >> p.group_by(t.g) >> p.ungroup() >> p.summarize(n=p.count()))
    T("hidden_key", lambda p, t: t >> p.group_by(t.g) >> p.select(t.g, t.b) >> p.summarize(s=t.b.sum()))
    # summarize over exactly the rows present after slice_head (needs a subquery on SQL)
    T("slice_then_ungrouped", lambda p, t: t >> p.arrange(t.a.nulls_last(), t.b.nulls_last(), t.g.nulls_last()) >> p.slice_head(2) >> p.summarize(n=p.count(), s=t.b.sum()))
    T("slice_alias_then_ungrouped", lambda p, t: t >> p.arrange(t.a.nulls_last(), t.b.nulls_last(), t.g.nulls_last()) >> p.slice_head(2) >> p.alias("z") >> p.summarize(n=p.count(), s=p.C.b.sum()))
    T("slice_alias_then_grouped", lambda p, t: t >> p.arrange(t.a.nulls_last(), t.b.nulls_last(), t.g.nulls_last()) >> p.slice_head(2) >> p.alias("z") >> p.group_by(p.C.g) >> p.summarize(n=p.count()))
    T("slice_mutate_then_ungrouped", lambda p, t: t >> p.arrange(t.a.nulls_last(), t.b.nulls_last(), t.g.nulls_last()) >> p.slice_head(2) >> p.mutate(d=t.a + 1) >> p.summarize(n=p.count(), s=p.C.d.sum()))
    T("all_null_group_sum", lambda p, t: t >> p.filter(t.b.is_null()) >> p.group_by(t.g) >> p.summarize(s=t.b.sum(), q=t.p.any(), r=t.p.all(), n=p.count()))
    T("filter_arg_rejects_all", lambda p, t: t >> p.group_by(t.g) >> p.summarize(s=t.b.sum(filter=t.b < t.b), c=t.b.count(filter=t.b < t.b), q=t.p.all(filter=t.a.is_null() & t.a.is_not_null())))
    T("window_agg_all_null", lambda p, t: t >> p.mutate(s=t.b.sum(partition_by=t.g), q=t.p.any(partition_by=t.g)))
    T("regroup_same_key", lambda p, t: t >> p.group_by(t.g) >> p.summarize(s=t.b.sum()) >> p.group_by(t.g) >> p.summarize(n=p.count()))
    T("regroup_same_key_alias", lambda p, t: t >> p.group_by(t.g, t.p) >> p.summarize(s=t.b.sum()) >> p.alias("z") >> p.group_by(p.C.g) >> p.summarize(n=p.count()))
    T("regroup_subset_key", lambda p, t: t >> p.group_by(t.g, t.p) >> p.summarize(s=t.b.sum()) >> p.group_by(t.g) >> p.summarize(n=p.count()))
    T("slice0_then_count", lambda p, t: t >> p.arrange(t.a.nulls_last(), t.b.nulls_last(), t.g.nulls_last()) >> p.slice_head(0) >> p.summarize(n=p.count()))
    T("slice0_then_filter", lambda p, t: t >> p.arrange(t.a.nulls_last(), t.b.nulls_last(), t.g.nulls_last()) >> p.slice_head(0) >> p.filter(t.a > 0))
    T("slice0_alias_then_count", lambda p, t: t >> p.arrange(t.a.nulls_last(), t.b.nulls_last(), t.g.nulls_last()) >> p.slice_head(0) >> p.alias("z") >> p.summarize(n=p.count()))
    # string keys and string min/max
    T("str_key", lambda p, t: t >> p.group_by(t.s) >> p.summarize(n=p.count(), s2=t.b.sum()), S_STR, alphabet="ab", nmax=3)
    T("str_minmax", lambda p, t: t >> p.summarize(lo=t.s.min(), hi=t.s.max()), S_STR, alphabet="ab", nmax=3)
    # grouping state corner cases: one column twice; a grouping column that is dropped / overwritten /
    # de-selected before summarize (still groups, is not shown)
    T("dup_group_key", lambda p, t: t >> p.group_by(t.g, t.g) >> p.summarize(n=p.count(), s=t.b.sum()))
    T("dup_group_key_add", lambda p, t: t >> p.group_by(t.g) >> p.group_by(t.g, t.p, add=True) >> p.summarize(n=p.count()))
    T("dup_group_key_window", lambda p, t: t >> p.group_by(t.g, "g") >> p.mutate(s=t.b.sum()) >> p.ungroup())
    from . import temporal

    out += temporal.templates_for("C04", cfg)
    from . import gen

    out += gen.templates_for("C04", cfg)  # compositions drawn from the typed pipeline grammar (pv/corpora/gen.py)
    return out


def rejections():
    """summarize needs its grouping columns to be selected (group_by itself refuses hidden columns)"""
    R = []
    R.append(("hidden_key_dropped", S, lambda p, t: t >> p.group_by(t.g) >> p.drop(t.g) >> p.summarize(n=p.count()), "ValueError"))
    R.append(("hidden_key_overwritten", S, lambda p, t: t >> p.group_by(t.g) >> p.mutate(g=t.a) >> p.summarize(n=p.count(), s=t.b.sum()), "ValueError"))
    R.append(("hidden_key_selected_away", S, lambda p, t: t >> p.group_by(t.g) >> p.select(t.a, t.b) >> p.summarize(m=t.a.max()), "ValueError"))
    R.append(("hidden_key_one_of_two", S, lambda p, t: t >> p.group_by(t.g, t.p) >> p.drop(t.p) >> p.summarize(n=p.count()), "ValueError"))
    R.append(("hidden_key_after_alias", S, lambda p, t: t >> p.group_by(t.g) >> p.select(t.a) >> p.alias("z") >> p.summarize(m=p.C.a.max()), "ValueError"))
    return R
