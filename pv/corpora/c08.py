"""C08: SQL subqueries - every order of the verb kinds, with / without alias() at every
position.  [S]: whenever the SQLite pipeline is accepted it equals Polars and REF.
The acceptance clauses [P] are checked in pv/checks/c08.py with the same steps."""

from __future__ import annotations

import itertools

from ..e1 import Template
from ..kernel import INT
from .common import rotated

SRC = [("t", {"a": INT, "b": INT, "g": INT}), ("u", {"k": INT, "x": INT})]

STEPS = {
    "F": lambda p, t, u: t >> p.filter(p.C.a > 0),
    "M": lambda p, t, u: t >> p.mutate(b=p.C.b + 1),
    "W": lambda p, t, u: t >> p.mutate(b=p.row_number(arrange=[p.C.a.nulls_last(), p.C.b.nulls_last(), p.C.g.nulls_last()])),
    "A": lambda p, t, u: t >> p.mutate(b=p.C.b.sum(partition_by=p.C.g)),
    "N": lambda p, t, u: t >> p.mutate(b=p.C.b - p.C.b.max(partition_by=p.C.g)),
    "S": lambda p, t, u: t >> p.group_by(p.C.g) >> p.summarize(a=p.C.a.max(), b=p.C.b.sum()),
    "U": lambda p, t, u: t >> p.summarize(a=p.C.a.max(), b=p.C.b.sum(), g=p.count()),
    "L": lambda p, t, u: t >> p.arrange(p.C.a.nulls_last(), p.C.b.nulls_last(), p.C.g.nulls_last()) >> p.slice_head(2),
    "O": lambda p, t, u: t >> p.arrange(p.C.b.descending().nulls_last()),
    "J": lambda p, t, u: t >> p.left_join(u, p.C.a == u.k) >> p.mutate(b=p.C.b + p.C.x.fill_null(0)) >> p.select(p.C.a, p.C.b, p.C.g),
    "K": lambda p, t, u: t >> p.left_join(u >> p.mutate(q=1), p.C.a == u.k) >> p.mutate(b=p.C.b + p.C.q.fill_null(0)) >> p.select(p.C.a, p.C.b, p.C.g),
    "Q": lambda p, t, u: t >> p.full_join(u, p.C.a == u.k) >> p.mutate(b=p.C.b + p.C.x.fill_null(0)) >> p.select(p.C.a, p.C.b, p.C.g),
    "R": lambda p, t, u: t >> p.rename({"a": "b", "b": "a"}),
    "P": lambda p, t, u: t >> p.select(p.C.g, p.C.b, p.C.a),
}
ALIAS = lambda p, t, u: t >> p.alias("z")  # noqa: E731
KINDS = ["F", "M", "W", "A", "N", "S", "U", "L", "O", "J", "K", "Q"]
NEVER_NEED = ["F", "M", "O", "R", "P"]  # + one grouped summarize + final slice_head


def prog_of(seq, alias_mask):
    def prog(p, t, u):
        cur = t
        for i, k in enumerate(seq):
            if alias_mask[i]:
                cur = ALIAS(p, cur, u)
            cur = STEPS[k](p, cur, u)
        return cur

    return prog


def seq_name(seq, mask):
    return "".join(("a" if m else "") + k for k, m in zip(seq, mask, strict=True))


def sequences(cfg):
    seqs = []
    for n in (1, 2):
        for seq in itertools.product(KINDS, repeat=n):
            if seq.count("J") + seq.count("K") + seq.count("Q") > 1:
                continue
            for mask in itertools.product((False, True), repeat=n):
                if mask[0]:
                    continue  # alias directly on the source changes nothing
                seqs.append((seq, mask))
    three = []
    for seq in itertools.product(KINDS, repeat=3):
        if seq.count("J") + seq.count("K") + seq.count("Q") > 1:
            continue
        for mask in itertools.product((False, True), repeat=3):
            if mask[0]:
                continue
            three.append((seq, mask))
    # an alias() far below the verb that needs the subquery (directly on the source): it must
    # not be accepted as the boundary when a slice_head / summarize / window lies in between
    for seq in (("M", "L", "F"), ("L", "F"), ("M", "L", "U"), ("L", "W"), ("W", "L", "F"), ("L", "S"), ("S", "F", "U"), ("W", "F"), ("A", "M", "F"), ("U", "F", "S"), ("L", "A"), ("M", "W", "S")):
        seqs.append((seq, tuple([True] + [False] * (len(seq) - 1))))
    if cfg.tier == "quick":
        seqs += rotated(three, 48, cfg.seed)
    else:
        seqs += rotated(three, 450, cfg.seed)  # of ~3500; all of them would take hours
    return seqs


def targeted():
    """state that must survive an alias()-enabled subquery: grouping, column order, hidden columns"""
    C = lambda p: p.C  # noqa: E731
    T = []
    T.append(("grouped_through_subquery", lambda p, t, u: t >> p.group_by(t.g) >> p.mutate(r=p.rank(arrange=[t.b.nulls_last()])) >> p.alias("z") >> p.filter(p.C.r <= 2) >> p.mutate(n=p.C.b.sum()) >> p.ungroup()))
    T.append(("grouped_through_subquery_summarize", lambda p, t, u: t >> p.group_by(t.g) >> p.mutate(r=p.rank(arrange=[t.b.nulls_last()])) >> p.alias("z") >> p.filter(p.C.r <= 2) >> p.summarize(n=p.count(), s=p.C.b.sum())))
    T.append(("grouped_slice_like", lambda p, t, u: t >> p.group_by(t.g) >> p.mutate(r=p.row_number(arrange=[t.a.nulls_last(), t.b.nulls_last()])) >> p.alias("z") >> p.filter(p.C.r == 1) >> p.mutate(m=p.C.b.max(), k=p.C.a.min()) >> p.ungroup()))
    # the grouping column is neither used above the subquery nor selected at the end (F61: it was pruned from the subquery)
    T.append(("grouping_pruned_summarize", lambda p, t, u: t >> p.group_by(t.g) >> p.mutate(w=t.b.sum()) >> p.alias("z") >> p.filter(p.C.w > 0) >> p.summarize(n=p.count()) >> p.select(p.C.n)))
    T.append(("grouping_pruned_window", lambda p, t, u: t >> p.group_by(t.g) >> p.mutate(w=t.b.sum()) >> p.alias("z") >> p.filter(p.C.w > 0) >> p.mutate(m=p.C.a.max()) >> p.ungroup() >> p.select(p.C.m)))
    def hidden_window_alias_filter(p, t, u):
        a = t >> p.mutate(w=t.b.sum())
        return a >> p.drop(a.w) >> p.alias("z", keep_col_refs=True) >> p.filter(t.a > 0) >> p.mutate(v=a.w + 1)

    T.append(("hidden_window_alias_filter", hidden_window_alias_filter))
    T.append(("hidden_through_subquery", lambda p, t, u: t >> p.mutate(a=t.a + 1) >> p.arrange(p.C.a.nulls_last(), t.b.nulls_last(), t.g.nulls_last()) >> p.slice_head(2) >> p.alias("z", keep_col_refs=True) >> p.filter(t.a > 0) >> p.mutate(w=t.a, v=p.C.a)))
    T.append(("reorder_through_subquery", lambda p, t, u: t >> p.select(t.g, t.a, t.b) >> p.mutate(a=t.b) >> p.arrange(t.b.nulls_last(), t.g.nulls_last(), t.a.nulls_last()) >> p.slice_head(2) >> p.alias("z") >> p.filter(p.C.g.is_not_null())))
    T.append(("two_subqueries", lambda p, t, u: t >> p.mutate(s=t.b.sum(partition_by=t.g)) >> p.alias("y") >> p.filter(p.C.s > 0) >> p.mutate(r=p.row_number(arrange=[p.C.a.nulls_last(), p.C.b.nulls_last(), p.C.g.nulls_last()])) >> p.alias("z") >> p.filter(p.C.r <= 2)))
    return T


def refused():
    """pipelines that need a subquery and have no alias() the library may use: SubqueryError, not an internal error"""
    R = []
    # the search for a usable alias() must not walk into the operands of a union (F62: TypeError from copying a source table)
    R.append(("union_then_full_join", lambda p, t, u: t >> p.select(t.a) >> p.filter(t.a > 1) >> p.union(u >> p.select(u.k) >> p.rename({"k": "a"}) >> p.alias("r")) >> p.full_join(u, p.C.a == u.k)))
    R.append(("union_alias_left_then_full_join", lambda p, t, u: t >> p.select(t.a) >> p.alias("l") >> p.filter(p.C.a > 1) >> p.union(u >> p.select(u.k) >> p.rename({"k": "a"}) >> p.alias("r")) >> p.full_join(u, p.C.a == u.k)))
    # a HIDDEN window column stays referable and would be inlined after the WHERE / JOIN (F63)
    def hidden_window_then_filter(p, t, u):
        a = t >> p.mutate(w=t.b.sum())
        return a >> p.drop(a.w) >> p.filter(t.a > 0) >> p.mutate(v=a.w + 1)

    def hidden_window_then_join(p, t, u):
        a = t >> p.mutate(w=t.b.sum(partition_by=t.g))
        return a >> p.select(t.a, t.b) >> p.inner_join(u, t.a == u.k) >> p.mutate(q=a.w)

    R.append(("hidden_window_then_filter", hidden_window_then_filter))
    R.append(("hidden_window_then_join", hidden_window_then_join))
    return R


def templates(cfg):
    out = [Template(f"c08.t.{name}", SRC, prog, props=("C08",)) for name, prog in targeted()]
    out += [Template(f"c08.refused.{name}", SRC, prog, props=("C08",), expect="sql-refuses") for name, prog in refused()]
    for seq, mask in sequences(cfg):
        out.append(
            Template(f"c08.{seq_name(seq, mask)}", SRC, prog_of(seq, mask), props=("C08",), tags=("nonlinear",) if False else ())
        )
    return out
