"""C12: the program space is the union of the corpora (every expression kind and every
column-creating verb); see e1.type_obligations for what is checked per template."""

from __future__ import annotations

import dataclasses
import importlib

from .common import rotated

BORROW = ["pv.corpora.c03", "pv.corpora.c04", "pv.corpora.c05", "pv.corpora.c06", "pv.corpora.c07", "pv.corpora.c17", "pv.corpora.c02", "pv.corpora.c16"]


def templates(cfg):
    allt = []
    for m in BORROW:
        mod = importlib.import_module(m)
        for tp in mod.templates(cfg):
            if tp.name.startswith("c07.") and ("null_col" in tp.name or "int_float" in tp.name):
                continue  # known finding F14 (C07): ill-typed union
            allt.append(dataclasses.replace(tp, name="c12~" + tp.name, props=("C12",), prog2=None))
    from . import temporal

    allt += [dataclasses.replace(tp, name="c12~" + tp.name) for tp in temporal.templates_for("C12", cfg)]
    if cfg.tier != "quick":
        return allt
    core = [t for t in allt if t.name.startswith(("c12~c03.", "c12~c17.", "c12~c12.tm.", "c12~c04.none", "c12~c04.g.", "c12~c05.typed", "c12~c05.aggwin"))]
    rest = [t for t in allt if t not in core]
    return core + rotated(rest, 80, cfg.seed)
