"""C17: casts - values of every accepted (source, target) family pair that has an exact
model, vs REF (the documented conversion table)."""

from __future__ import annotations

from ..e1 import Template
from ..kernel import BOOL, INT, REAL, STR

S_N = [("t", {"a": INT, "f": REAL, "p": BOOL})]
S_S = [("t", {"s": STR, "a": INT})]
DIGITS = list("0123456789-+")


def templates(cfg):
    out = []

    def T(name, prog, sources=S_N, **kw):
        kw.setdefault("nmax", 2)
        out.append(Template(f"c17.{name}", sources, prog, props=("C17",), **kw))

    T("float_to_int", lambda p, t: t >> p.mutate(y=t.f.cast(p.Int64())))
    T("float_expr_to_int", lambda p, t: t >> p.mutate(y=(t.f * 2 - 1).cast(p.Int64()) + 1))
    T("neg_float_to_int", lambda p, t: t >> p.mutate(y=(-t.f).cast(p.Int64())))
    T("float_to_int_in_filter", lambda p, t: t >> p.filter(t.f.cast(p.Int64()) == t.a))
    T("truediv_to_int", lambda p, t: t >> p.mutate(y=(t.a / 4).cast(p.Int64())))
    T("bool_to_int", lambda p, t: t >> p.mutate(y=t.p.cast(p.Int64()), z=t.p.cast(p.Int64()) + t.a))
    T("bool_expr_to_int", lambda p, t: t >> p.mutate(y=((t.a > 0) | t.p).cast(p.Int64())))
    T("bool_to_float", lambda p, t: t >> p.mutate(y=t.p.cast(p.Float64()) + t.f))
    T("bool_to_int_sum", lambda p, t: t >> p.summarize(n=t.p.cast(p.Int64()).sum()))
    T("int_to_float", lambda p, t: t >> p.mutate(y=t.a.cast(p.Float64()) / 2, z=t.a.cast(p.Float64()) + t.f))
    T("int_to_float_cmp", lambda p, t: t >> p.mutate(y=t.a.cast(p.Float64()) > t.f))
    T("int_to_int", lambda p, t: t >> p.mutate(y=t.a.cast(p.Int64()) + 1))
    T("float_to_float", lambda p, t: t >> p.mutate(y=t.f.cast(p.Float64()) * 2))
    T("null_lit_cast", lambda p, t: t >> p.mutate(y=p.lit(None).cast(p.Int64()), z=t.a.cast(p.Float64()).is_null()))
    T("int_to_string", lambda p, t: t >> p.mutate(y=t.a.cast(p.String())), S_S)
    T("int_to_string_concat", lambda p, t: t >> p.mutate(y=t.a.cast(p.String()) + "x" + t.s), S_S, alphabet="ab")
    T("int_expr_to_string", lambda p, t: t >> p.mutate(y=(t.a * -1).cast(p.String())), S_S)
    T("int_to_string_len", lambda p, t: t >> p.mutate(y=t.a.cast(p.String()).str.len()), S_S, int_bound=1000)
    T("string_to_int", lambda p, t: t >> p.mutate(y=t.s.cast(p.Int64())), S_S, alphabet=DIGITS)
    T("string_to_int_arith", lambda p, t: t >> p.mutate(y=t.s.cast(p.Int64()) + t.a), S_S, alphabet=DIGITS)
    T("string_to_int_roundtrip", lambda p, t: t >> p.mutate(y=t.a.cast(p.String()).cast(p.Int64())), S_S, int_bound=999)
    T("string_to_int_filter", lambda p, t: t >> p.filter(t.s.cast(p.Int64()) > t.a), S_S, alphabet=DIGITS)
    T("int_to_generic_float", lambda p, t: t >> p.mutate(y=t.a.cast(p.Float()) + t.f))
    # casts to the abstract targets Int() / Float() whose result is exported as it is (no later operator that would
    # promote it anyway): value and - through C12's type obligations - exported dtype (round 5, C12-F)
    T("int_to_generic_float_bare", lambda p, t: t >> p.mutate(y=t.a.cast(p.Float()), z=t.a.cast(p.Float()) * 2, w=-t.a.cast(p.Float())))
    T("generic_targets_bare", lambda p, t: t >> p.mutate(n=p.lit(None).cast(p.Int()), m=p.lit(None).cast(p.Float()), i=t.a.cast(p.Int()), g=t.f.cast(p.Float())))
    T("typed_int_literal_as_float", lambda p, t: t >> p.mutate(x=p.lit(3, p.Float()), y=p.lit(3, p.Float64()), z=p.lit(2, p.Float()) + t.a))  # F70
    T("generic_float_agg", lambda p, t: t >> p.summarize(s=t.a.cast(p.Float()).sum(), m=t.a.cast(p.Float()).max()))
    T("int_to_generic_float_to_string", lambda p, t: t >> p.mutate(y=t.a.cast(p.Float()).cast(p.String())), int_bound=1000)
    T("int_to_float64_to_string", lambda p, t: t >> p.mutate(y=t.a.cast(p.Float64()).cast(p.String())), int_bound=1000)
    T("float_to_string", lambda p, t: t >> p.mutate(y=t.f.cast(p.String())), int_bound=100)
    T("float_to_string_concat", lambda p, t: t >> p.mutate(y=t.f.cast(p.String()) + "|" + t.a.cast(p.String())), int_bound=100)
    # float -> string outside the quarter-dyadic domain: 16-17 significant digits, exponents, -0.0
    # (the text is produced by native formatting code of the engines: concrete differential only)
    def gen_wide(rng):
        pool = [1 / 3, 0.1 + 0.2, 1e15, 1e16, 123456789012345678.0, 1e-5, 1e-7, -0.0, float(2**53), 2.5, -1.75, 1e6]
        return {"t": [{"a": i, "f": rng.choice(pool), "p": True} for i in range(rng.randint(1, 3))]}

    T("float_to_string_wide", lambda p, t: t >> p.mutate(y=t.f.cast(p.String())), concrete_gen=gen_wide)
    T("cast_in_when", lambda p, t: t >> p.mutate(y=p.when(t.p).then(t.f.cast(p.Int64())).otherwise(t.a)))
    T("cast_of_when", lambda p, t: t >> p.mutate(y=p.when(t.p).then(t.f).otherwise(t.a).cast(p.Int64())))
    T("cast_group_key", lambda p, t: t >> p.mutate(k=t.f.cast(p.Int64())) >> p.group_by(p.C.k) >> p.summarize(n=p.count()))
    from . import temporal

    out += temporal.templates_for("C17", cfg)
    return out
