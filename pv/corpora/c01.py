"""C01: Polars and SQLite return the same table.  The program space is the union of the
template corpora of the other properties (every verb kind, expression kind, two-table
shape); per template z3 decides SEM_polars(plan) == SEM_sqlite(sql) for all input tables in
the bounds - no reference semantics is compared (REF only supplies DEF, the conditions under
which the documentation defines a backend-independent result)."""

from __future__ import annotations

import dataclasses
import importlib

from .common import rotated

BORROW = [
    "pv.corpora.c02", "pv.corpora.c03", "pv.corpora.c04", "pv.corpora.c05", "pv.corpora.c06", "pv.corpora.c07",
    "pv.corpora.c08", "pv.corpora.c09", "pv.corpora.c10", "pv.corpora.c15", "pv.corpora.c16", "pv.corpora.c17",
    "pv.corpora.c18",
]  # fmt: skip

CORE_PREFIXES = ("c02.t.", "c03.", "c04.t.", "c04.g.", "c05.pos.", "c05.arr", "c05.win.", "c05.grouping", "c05.typed", "c06.", "c07.", "c09.", "c16.refs", "c16.self_join", "c17.", "c18.eq", "c01.tm.")


def templates(cfg):
    allt = []
    for m in BORROW:
        try:
            mod = importlib.import_module(m)
        except ModuleNotFoundError:
            continue
        for tp in mod.templates(cfg):
            allt.append(dataclasses.replace(tp, name="c01~" + tp.name, props=("C01",), mode="cross", prog2=None))
    from . import temporal

    allt += [dataclasses.replace(tp, name="c01~" + tp.name, mode="cross") for tp in temporal.templates_for("C01", cfg)]
    if cfg.tier != "quick":
        core = [t for t in allt if t.name[4:].startswith(CORE_PREFIXES)]
        rest = [t for t in allt if t not in core]
        return core + rotated(rest, 1500, cfg.seed)
    core = [t for t in allt if t.name[4:].startswith(CORE_PREFIXES)]
    rest = [t for t in allt if t not in core]
    return core + rotated(rest, 140, cfg.seed)
