"""C03: element-wise operators, one template per operator x operand shape, vs REF."""

from __future__ import annotations

import itertools

from ..e1 import Template
from ..kernel import BOOL, INT, REAL, STR
from .common import rotated

S_I = [("t", {"a": INT, "b": INT, "p": BOOL, "q": BOOL})]
S_F = [("t", {"a": INT, "f": REAL, "g": REAL})]
S_I4 = [("t", {"a": INT, "b": INT, "c": INT, "d": INT})]

# name -> (schema, expr builder, tags)
E = {}


def e(name, schema, fn, *tags):
    assert name not in E, name
    E[name] = (schema, fn, tags)


NL = "nonlinear"
# arithmetic
e("add_cc", S_I, lambda p, t: t.a + t.b)
e("add_cl", S_I, lambda p, t: t.a + 3)
e("add_lc", S_I, lambda p, t: 3 + t.a)
e("sub_cc", S_I, lambda p, t: t.a - t.b)
e("sub_lc", S_I, lambda p, t: 10 - t.a)
e("mul_cc", S_I, lambda p, t: t.a * t.b, NL)
e("mul_cl", S_I, lambda p, t: t.a * -2)
e("neg", S_I, lambda p, t: -t.a)
e("nested_arith", S_I, lambda p, t: (t.a + 1) * 2 - t.b)
e("floordiv_cc", S_I, lambda p, t: t.a // t.b, NL)
e("floordiv_cl", S_I, lambda p, t: t.a // 3, NL)
e("floordiv_cneg", S_I, lambda p, t: t.a // -2, NL)
e("floordiv_lc", S_I, lambda p, t: 7 // t.b, NL)
e("floordiv_neglc", S_I, lambda p, t: -7 // t.b, NL)
e("mod_cc", S_I, lambda p, t: t.a % t.b, NL)
e("mod_cl", S_I, lambda p, t: t.a % 3, NL)
e("mod_cneg", S_I, lambda p, t: t.a % -3, NL)
e("mod_lc", S_I, lambda p, t: 7 % t.b, NL)
e("mod_neglc", S_I, lambda p, t: -7 % t.b, NL)
e("divmod_identity", S_I, lambda p, t: (t.a // t.b) * t.b + t.a % t.b, NL)
e("truediv_cc", S_I, lambda p, t: t.a / t.b, NL)
e("truediv_cl", S_I, lambda p, t: t.a / 4)
e("round_int_neg", S_I, lambda p, t: t.a.round(-1), NL)
e("round_int_zero", S_I, lambda p, t: t.a.round(0))
e("abs", S_I, lambda p, t: t.a.abs())
e("abs_nested", S_I, lambda p, t: (t.a - t.b).abs() + 1)
# comparison
for nm, f in {
    "eq": lambda x, y: x == y, "ne": lambda x, y: x != y, "lt": lambda x, y: x < y,
    "le": lambda x, y: x <= y, "gt": lambda x, y: x > y, "ge": lambda x, y: x >= y,
}.items():  # fmt: skip
    e(f"{nm}_cc", S_I, lambda p, t, f=f: f(t.a, t.b))
    e(f"{nm}_cl", S_I, lambda p, t, f=f: f(t.a, 1))
    e(f"{nm}_lc", S_I, lambda p, t, f=f: f(2, t.b))
e("eq_bool", S_I, lambda p, t: t.p == t.q)
e("ne_bool_lit", S_I, lambda p, t: t.p != True)  # noqa: E712
e("cmp_nested", S_I, lambda p, t: (t.a + t.b > 0) == t.p)
# boolean (Kleene)
e("and_cc", S_I, lambda p, t: t.p & t.q)
e("or_cc", S_I, lambda p, t: t.p | t.q)
e("xor_cc", S_I, lambda p, t: t.p ^ t.q)
e("not_c", S_I, lambda p, t: ~t.p)
e("and_cl", S_I, lambda p, t: t.p & True)
e("or_cl", S_I, lambda p, t: t.p | False)
e("and_lc", S_I, lambda p, t: False & t.p)
e("xor_cl", S_I, lambda p, t: t.p ^ True)
e("bool_nested", S_I, lambda p, t: (t.p & (t.a > 1)) | ~t.q)
e("not_or", S_I, lambda p, t: ~(t.p | t.q))
e("not_and_cmp", S_I, lambda p, t: ~((t.a > 1) & (t.b < 2)))
e("not_not_or", S_I, lambda p, t: ~~(t.p | (t.a > 0)))
e("not_xor", S_I, lambda p, t: ~(t.p ^ t.q))
e("not_when", S_I, lambda p, t: ~p.when(t.a > 1).then(t.p).otherwise(t.q))
e("bool_demorgan", S_I, lambda p, t: ~(t.p & t.q) ^ (~t.p | ~t.q))
e("and_cmp_null", S_I, lambda p, t: (t.a > 0) & (t.b > 0))
e("or_cmp_null", S_I, lambda p, t: (t.a > 0) | (t.b > 0))
# null handling
e("is_null", S_I, lambda p, t: t.a.is_null())
e("is_not_null", S_I, lambda p, t: t.a.is_not_null())
e("is_null_expr", S_I, lambda p, t: (t.a + t.b).is_null())
e("fill_null_c", S_I, lambda p, t: t.a.fill_null(t.b))
e("fill_null_l", S_I, lambda p, t: t.a.fill_null(0))
e("fill_null_bool", S_I, lambda p, t: t.p.fill_null(False))
e("coalesce1", S_I, lambda p, t: p.coalesce(t.a) + p.coalesce(t.b + 1))
e("coalesce2", S_I, lambda p, t: p.coalesce(t.a, t.b))
e("coalesce3", S_I, lambda p, t: p.coalesce(t.a, t.b, 0))
e("coalesce_expr", S_I, lambda p, t: p.coalesce(t.a + 1, t.b * 2, -1))
# is_in
e("is_in_lits", S_I, lambda p, t: t.a.is_in(1, 2))
e("is_in_one", S_I, lambda p, t: t.a.is_in(0))
e("is_in_col", S_I, lambda p, t: t.a.is_in(t.b, 3))
e("is_in_null", S_I, lambda p, t: t.a.is_in(1, None))
e("is_in_bool", S_I, lambda p, t: t.p.is_in(True))
e("not_is_in", S_I, lambda p, t: ~t.a.is_in(1, t.b))
# horizontal
e("hmax2", S_I, lambda p, t: p.max(t.a, t.b))
e("hmin2", S_I, lambda p, t: p.min(t.a, t.b))
e("hmax3", S_I, lambda p, t: p.max(t.a, t.b, 3))
e("hmin3", S_I, lambda p, t: p.min(t.a, t.b, -1))
e("hmax4", S_I, lambda p, t: p.max(t.a, t.b, t.a + t.b, 0))
e("hmin4", S_I, lambda p, t: p.min(t.a, t.b, t.a - t.b, 1))
e("hmin5", S_I, lambda p, t: p.min(3, t.a, t.b, t.b - t.a, t.a + 1))
e("hmax5", S_I, lambda p, t: p.max(-3, t.a, t.b, t.b - t.a, t.a + 1))
e("hmin4_cols", S_I4, lambda p, t: p.min(t.a, t.b, t.c, t.d))
e("hmax4_cols", S_I4, lambda p, t: p.max(t.a, t.b, t.c, t.d))
e("coalesce4_cols", S_I4, lambda p, t: p.coalesce(t.a, t.b, t.c, t.d))
e("hsum4_cols", S_I4, lambda p, t: p.sum(t.a, t.b, t.c, t.d))
e("is_in4_cols", S_I4, lambda p, t: t.a.is_in(t.b, t.c, t.d))
e("hsum", S_I, lambda p, t: p.sum(t.a, t.b, 1))
e("hany", S_I, lambda p, t: p.any(t.p, t.q))
e("hall", S_I, lambda p, t: p.all(t.p, t.q, t.a > 0))
e("hany3", S_I, lambda p, t: p.any(t.p, t.q, t.a.is_null()))
# clip
e("clip", S_I, lambda p, t: t.a.clip(0, 5))
e("clip_null_lo", S_I, lambda p, t: t.a.clip(None, 2))  # a null bound is skipped like in max / min (F69)
e("clip_null_hi", S_I, lambda p, t: t.a.clip(-1, None))
e("clip_null_both_expr", S_I, lambda p, t: (t.a + t.b).clip(None, None))
e("clip_neg", S_I, lambda p, t: t.a.clip(-2, 2))
e("clip_expr", S_I, lambda p, t: (t.a - t.b).clip(-1, 1))
# case
e("when1", S_I, lambda p, t: p.when(t.a > 1).then(t.b).otherwise(0))
e("when_noelse", S_I, lambda p, t: p.when(t.a > 1).then(t.b))
e("when2", S_I, lambda p, t: p.when(t.a > 1).then(t.b).when(t.p).then(5).otherwise(None))
e("when_nullcond", S_I, lambda p, t: p.when(t.p).then(1).when(t.q).then(2).otherwise(3))
e("when_else_float_lit", S_I, lambda p, t: p.when(t.p).then(t.a).otherwise(0.5))
e("when_lits_int_float", S_I, lambda p, t: p.when(t.a > 0).then(1).when(t.b > 0).then(2).otherwise(2.5))
e("when_none_else_lit", S_I, lambda p, t: p.when(t.p).then(None).otherwise(7))
e("when_float_else_int_lit", S_F, lambda p, t: p.when(t.f > 0).then(t.f).otherwise(1))
e("when_overlap", S_I, lambda p, t: p.when(t.a >= 0).then(1).when(t.a >= 1).then(2).otherwise(3))
e("when_bool_val", S_I, lambda p, t: p.when(t.a > t.b).then(t.p).otherwise(t.q))
e("when_nested_ops", S_I, lambda p, t: p.when((t.a // t.b) > 0).then(t.a % t.b).otherwise(-t.a), NL)
e("op_inside_when", S_I, lambda p, t: p.when(t.p | t.q).then(p.max(t.a, t.b)).otherwise(p.coalesce(t.a, 0)))
e("map", S_I, lambda p, t: t.a.map({1: 10, 2: 20}))
e("map_default", S_I, lambda p, t: t.a.map({0: 5, 3: 7}, default=-1))
e("map_tuple", S_I, lambda p, t: t.a.map({(1, 2): 10, 3: 30}, default=t.b))
# floats
e("f_add", S_F, lambda p, t: t.f + t.g)
e("f_mul_lit", S_F, lambda p, t: t.f * 2)
e("f_int_mix", S_F, lambda p, t: t.f + t.a)
e("f_cmp", S_F, lambda p, t: t.f > t.g)
e("f_cmp_int", S_F, lambda p, t: t.f <= t.a)
e("f_neg_abs", S_F, lambda p, t: (-t.f).abs())
e("f_floor", S_F, lambda p, t: t.f.floor())
e("f_ceil", S_F, lambda p, t: t.f.ceil())
e("f_round0", S_F, lambda p, t: t.f.round(0))
e("f_round1", S_F, lambda p, t: t.f.round(1))
e("f_max", S_F, lambda p, t: p.max(t.f, t.g))
e("f_clip", S_F, lambda p, t: t.f.clip(-1.5, 1.5))
e("f_coalesce", S_F, lambda p, t: p.coalesce(t.f, t.g, 0.0))
e("f_when", S_F, lambda p, t: p.when(t.f > 0).then(t.f).otherwise(t.g))
e("f_div_lit", S_F, lambda p, t: t.f / 2)
e("f_round_neg", S_F, lambda p, t: t.f.round(-1))
S_S = [("t", {"s": STR, "r": STR, "a": INT})]
e("floor_ceil_int", S_I, lambda p, t: t.a.floor() + t.b.ceil())
e("clip_int_float_bounds", S_I, lambda p, t: t.a.clip(0.5, 10.5))
e("clip_int_mixed_bounds", S_I, lambda p, t: t.a.clip(-1, 2.5) + t.b)
e("coalesce_int_float_lit", S_I, lambda p, t: p.coalesce(t.a, 0.5))
e("fill_null_int_float_lit", S_I, lambda p, t: t.a.fill_null(2.5) * 2)
e("s_clip", S_S, lambda p, t: t.s.clip("b", "d"))
e("s_max", S_S, lambda p, t: p.max(t.s, t.r))
e("s_min_lit", S_S, lambda p, t: p.min(t.s, "c"))
e("s_lt", S_S, lambda p, t: t.s < t.r)
e("s_ge_lit", S_S, lambda p, t: t.s >= "b")
e("s_coalesce", S_S, lambda p, t: p.coalesce(t.s, t.r, "z"))
e("s_is_in", S_S, lambda p, t: t.s.is_in("a", t.r, None))
e("s_len_unicode", S_S, lambda p, t: t.s.str.len() + p.max(t.r.str.len(), 1))
e("s_len_unicode_cmp", S_S, lambda p, t: (t.s.str.len() > 1) | t.r.str.upper().str.len().is_null())
e("s_when", S_S, lambda p, t: p.when(t.s == t.r).then(t.s + "!").otherwise(t.r))


def templates(cfg):
    out = []
    names = list(E)
    for nm in names:
        schema, fn, tags = E[nm]
        prog = lambda p, t, fn=fn: t >> p.mutate(y=fn(p, t))  # noqa: E731
        out.append(Template(f"c03.{nm}", schema, prog, props=("C03",), tags=tags, nmax=2, alphabet=("a\u00e9\u20ac\U0001f600" if nm.startswith("s_len_unicode") else "abcd") if schema is S_S else None, int_bound=200 if nm.startswith(("round_int", "f_round_neg")) else None))
    # the same operators as predicates / inside filter and with literal operands in arrange
    for nm in ("floordiv_cc", "mod_cc", "bool_nested", "is_in_null", "hmax3", "when2", "or_cmp_null"):
        schema, fn, tags = E[nm]
        prog2 = lambda p, t, fn=fn: t >> p.mutate(y=fn(p, t)) >> p.filter(p.C.y.is_not_null()) >> p.mutate(z=p.C.y == p.C.y)  # noqa: E731
        out.append(Template(f"c03.chain.{nm}", schema, prog2, props=("C03",), tags=tags, nmax=2))
    # integer operators on wide integers (|x| <= 2**62, tag "wide": int -> float64 conversions inside the artefacts are
    # exact only up to 2**53, kernel.WIDE): an integer result must not pass through floating point (round 5, C03-F).
    # Literal divisors keep the queries linear; sums / products that could leave int64 are not used.
    wide = {
        "floordiv_1000": lambda p, t: t.a // 1000, "floordiv_1": lambda p, t: t.a // 1, "floordiv_neg7": lambda p, t: t.a // -7,
        "mod_1000": lambda p, t: t.a % 1000, "mod_neg3": lambda p, t: t.a % -3, "neg_abs": lambda p, t: (-t.a).abs(),
        "divmod_identity_10": lambda p, t: (t.a // 10) * 10 + t.a % 10, "cmp": lambda p, t: t.a > t.b, "eq_lit": lambda p, t: t.a == 2**53 + 1,
        "hmax": lambda p, t: p.max(t.a, t.b), "clip": lambda p, t: t.a.clip(-(2**60), 2**60), "fill": lambda p, t: t.a.fill_null(2**61 + 1),
        "when": lambda p, t: p.when(t.a >= t.b).then(t.a).otherwise(t.b), "round0": lambda p, t: t.a.round(0),
    }  # fmt: skip
    for nm, fn in wide.items():
        out.append(Template(f"c03.wide.{nm}", S_I, lambda p, t, fn=fn: t >> p.mutate(y=fn(p, t)), props=("C03",), tags=("wide",), nmax=2, int_bound=2**62))
    out.append(Template("c03.wide.agg", S_I, lambda p, t: t >> p.summarize(m=t.a.max(), n=t.a.min(), c=t.a.count()), props=("C03",), tags=("wide",), nmax=2, int_bound=2**62))
    if cfg.tier != "quick":
        # thorough: every binary operator nested in every other (one level), with a literal operand
        # in either position, on nullable int / bool columns
        ar = {
            "add": lambda x, y: x + y, "sub": lambda x, y: x - y, "mul": lambda x, y: x * y,
            "fdiv": lambda x, y: x // y, "mod": lambda x, y: x % y,
        }  # fmt: skip
        cm = {"eq": lambda x, y: x == y, "ne": lambda x, y: x != y, "lt": lambda x, y: x < y, "ge": lambda x, y: x >= y}
        bo = {"and": lambda x, y: x & y, "or": lambda x, y: x | y, "xor": lambda x, y: x ^ y}
        for (n1, f1), (n2, f2) in itertools.product(ar.items(), ar.items()):
            nl = ("nonlinear",)
            out.append(Template(f"c03.nest.{n1}.{n2}.l", S_I, lambda p, t, f1=f1, f2=f2: t >> p.mutate(y=f1(f2(t.a, t.b), 3)), props=("C03",), tags=nl, nmax=2, int_bound=12))
            out.append(Template(f"c03.nest.{n1}.{n2}.r", S_I, lambda p, t, f1=f1, f2=f2: t >> p.mutate(y=f1(-2, f2(t.b, t.a))), props=("C03",), tags=nl, nmax=2, int_bound=12))
        for (n1, f1), (n2, f2) in itertools.product(cm.items(), ar.items()):
            out.append(Template(f"c03.nest.{n1}.{n2}", S_I, lambda p, t, f1=f1, f2=f2: t >> p.mutate(y=f1(f2(t.a, t.b), t.a)), props=("C03",), tags=("nonlinear",), nmax=2, int_bound=12))
        for (n1, f1), (n2, f2) in itertools.product(bo.items(), bo.items()):
            out.append(Template(f"c03.nest.{n1}.{n2}", S_I, lambda p, t, f1=f1, f2=f2: t >> p.mutate(y=f1(f2(t.p, t.q), t.a > 0)), props=("C03",), nmax=2))
            out.append(Template(f"c03.nest.not.{n1}.{n2}", S_I, lambda p, t, f1=f1, f2=f2: t >> p.mutate(y=~f1(~f2(t.p, t.a.is_null()), t.q)), props=("C03",), nmax=2))
        for (n1, f1), (n2, f2) in itertools.product(bo.items(), cm.items()):
            out.append(Template(f"c03.nest.{n1}.{n2}", S_I, lambda p, t, f1=f1, f2=f2: t >> p.filter(f1(f2(t.a, t.b), t.p)), props=("C03",), nmax=2))
        fns = {
            "fill_null": lambda p, x: x.fill_null(0), "abs": lambda p, x: x.abs(), "neg": lambda p, x: -x,
            "clip": lambda p, x: x.clip(-1, 1), "is_in": lambda p, x: x.is_in(0, 1), "is_null": lambda p, x: x.is_null(),
            "hmax": lambda p, x: p.max(x, 0), "coalesce": lambda p, x: p.coalesce(x, -1), "map": lambda p, x: x.map({0: 5}),
            "when": lambda p, x: p.when(x > 0).then(x).otherwise(0),
        }  # fmt: skip
        for (n1, f1), (n2, f2) in itertools.product(fns.items(), ar.items()):
            out.append(Template(f"c03.nestfn.{n1}.{n2}", S_I, lambda p, t, f1=f1, f2=f2: t >> p.mutate(y=f1(p, f2(t.a, t.b))), props=("C03",), tags=("nonlinear",), nmax=2, int_bound=12))
    # expression objects that are built in steps and reused (a partial when/then chain
    # extended later, one when-clause with two thens, one expression in two columns)
    def reuse_when(p, t):
        base = p.when(t.a > 1).then(10)
        ext = base.when(t.b > 1).then(20)
        return t >> p.mutate(x=base, y=ext.otherwise(0), z=base.otherwise(-1))

    out.append(Template("c03.reuse.when_base_extended", S_I, reuse_when, props=("C03",), nmax=2))

    def reuse_clause(p, t):
        w = p.when(t.p)
        return t >> p.mutate(x=w.then(1), y=w.then(t.b).otherwise(t.a))

    out.append(Template("c03.reuse.when_clause_two_thens", S_I, reuse_clause, props=("C03",), nmax=2))

    def reuse_sub(p, t):
        d = t.a - t.b
        return t >> p.mutate(x=d.abs(), y=p.max(d, 0), z=d * d, w=-d, tags=None) if False else t >> p.mutate(x=d.abs(), y=p.max(d, 0), w=-d)

    out.append(Template("c03.reuse.subexpr", S_I, reuse_sub, props=("C03",), nmax=2))
    from . import temporal

    out += temporal.templates_for("C03", cfg)
    return out
