"""G: typed pipeline generator.  The hand-written corpora enumerate verb *kinds*; this module
enumerates *compositions*: well-typed pipelines drawn from a grammar over every verb and a
broad expression grammar (element-wise, case, horizontal, aggregate, window - with filter=,
partition_by=, arrange=), tracked by a small static type/visibility state so that every program is
accepted by construction.  Each generated program is one E1 template: z3 decides, for all input
tables in the bounds, SEM_polars(plan) = REF = SEM_sqlite(sql).  The program space is sampled
(deterministically: program i of stream s is a function of (s, i) only, its name `gen.<s>.<i>`
regenerates it for replay); the data quantifier of every sampled program is decided by the solver.

Programs reference columns by name (`C.x`); references by origin are the subject of C09/C16."""

from __future__ import annotations

import random

from ..e1 import Template
from ..kernel import BOOL, INT

SRC = [("t", {"a": INT, "b": INT, "p": BOOL}), ("u", {"k": INT, "x": INT})]

I, B = "I", "B"


# ---------------------------------------------------------------------------- expressions
# expression descriptors are nested tuples (pure data, printable), built against a namespace p


def build(p, e):
    k = e[0]
    if k == "col":
        return getattr(p.C, e[1])
    if k == "lit":
        return e[1]
    if k == "plit":
        return p.lit(e[1])
    if k == "bin":
        a, b = build(p, e[2]), build(p, e[3])
        op = e[1]
        if isinstance(a, (int, bool)) and isinstance(b, (int, bool)):
            a = p.lit(a)
        return {
            "+": lambda: a + b, "-": lambda: a - b, "*": lambda: a * b, "//": lambda: a // b, "%": lambda: a % b,
            "==": lambda: a == b, "!=": lambda: a != b, "<": lambda: a < b, "<=": lambda: a <= b, ">": lambda: a > b, ">=": lambda: a >= b,
            "&": lambda: a & b, "|": lambda: a | b, "^": lambda: a ^ b,
        }[op]()  # fmt: skip
    if k == "neg":
        return -build(p, e[1])
    if k == "abs":
        return build(p, e[1]).abs()
    if k == "not":
        return ~build(p, e[1])
    if k == "is_null":
        return build(p, e[1]).is_null()
    if k == "is_not_null":
        return build(p, e[1]).is_not_null()
    if k == "fill_null":
        return build(p, e[1]).fill_null(build(p, e[2]))
    if k == "is_in":
        return build(p, e[1]).is_in(*e[2])
    if k == "clip":
        return build(p, e[1]).clip(e[2], e[3])
    if k == "when":
        return p.when(build(p, e[1])).then(build(p, e[2])).otherwise(build(p, e[3]))
    if k == "when1":
        return p.when(build(p, e[1])).then(build(p, e[2]))
    if k == "hmin":
        return p.min(build(p, e[1]), build(p, e[2]))
    if k == "hmax":
        return p.max(build(p, e[1]), build(p, e[2]))
    if k == "coalesce":
        return p.coalesce(build(p, e[1]), build(p, e[2]))
    if k == "cast_int":
        return build(p, e[1]).cast(p.Int64)
    if k == "agg":
        return getattr(build(p, e[2]), e[1])(**ctx_kwargs(p, e[3]))
    if k == "count_star":
        return p.count(**ctx_kwargs(p, e[1]))
    if k == "shift":
        x = build(p, e[1])
        kw = ctx_kwargs(p, e[4])
        return x.shift(e[2], **kw) if e[3] is None else x.shift(e[2], e[3], **kw)
    if k == "cum_sum":
        return build(p, e[1]).cum_sum(**ctx_kwargs(p, e[2]))
    if k in ("row_number", "rank", "dense_rank"):
        return getattr(p, k)(**ctx_kwargs(p, e[1]))
    raise AssertionError(e)


def order_key(p, o):
    e, desc, nl = o
    x = build(p, e)
    if desc:
        x = x.descending()
    return x.nulls_last() if nl else x.nulls_first()


def ctx_kwargs(p, ctx):
    kw = {}
    if ctx.get("partition_by") is not None:
        kw["partition_by"] = [getattr(p.C, n) for n in ctx["partition_by"]]
    if ctx.get("arrange") is not None:
        kw["arrange"] = [order_key(p, o) for o in ctx["arrange"]]
    if ctx.get("filter") is not None:
        kw["filter"] = build(p, ctx["filter"])
    return kw


def show(e):
    if not isinstance(e, tuple) or not isinstance(e[0], str):
        return repr(e)
    k = e[0]
    if k == "col":
        return e[1]
    if k in ("lit", "plit"):
        return repr(e[1])
    if k == "bin":
        return f"({show(e[2])} {e[1]} {show(e[3])})"
    return k + "(" + ", ".join(show(x) if isinstance(x, tuple) and x and isinstance(x[0], str) else (_show_ctx(x) if isinstance(x, dict) else repr(x)) for x in e[1:]) + ")"


def _show_ctx(c):
    out = []
    if c.get("partition_by") is not None:
        out.append("part=" + ",".join(c["partition_by"]))
    if c.get("arrange") is not None:
        out.append("arr=" + ",".join(show(e) + ("↓" if d else "") + ("⊥last" if nl else "⊥first") for e, d, nl in c["arrange"]))
    if c.get("filter") is not None:
        out.append("filter=" + show(c["filter"]))
    return "{" + " ".join(out) + "}"


def _has_col(e):
    if not isinstance(e, tuple):
        return False
    if e and e[0] == "col":
        return True
    return any(_has_col(x) for x in e[1:] if isinstance(x, tuple))


WINDOW_KINDS = ("row_number", "rank", "dense_rank", "shift", "cum_sum")


def _mentions(x, kinds):
    if isinstance(x, tuple):
        return (bool(x) and x[0] in kinds) or any(_mentions(y, kinds) for y in x)
    if isinstance(x, dict):
        return any(_mentions(y, kinds) for y in x.values())
    if isinstance(x, list):
        return any(_mentions(y, kinds) for y in x)
    return False


def classify(steps):
    """the property whose verb family a generated program exercises most specifically"""
    kinds = [k for k, _ in steps]
    if "union" in kinds:
        return "C07"
    if "join" in kinds:
        return "C06"
    if "summarize" in kinds:
        return "C04"
    if "slice" in kinds or "arrange" in kinds or any(_mentions(a, WINDOW_KINDS) for k, a in steps if k == "mutate"):
        return "C05"
    return "C02"


class G:
    """random well-typed expressions over a visible-column state"""

    def __init__(self, rng: random.Random, cols):
        self.rng = rng
        self.cols = list(cols)  # [(name, ty)]

    def names(self, ty):
        return [n for n, t in self.cols if t == ty]

    def lit_i(self):
        return self.rng.choice([-2, -1, 0, 1, 2, 3, 5])

    def int_(self, d):
        r = self.rng
        ints = self.names(I)
        if d <= 0 or r.random() < 0.25:
            if ints and r.random() < 0.8:
                return ("col", r.choice(ints))
            return ("lit", self.lit_i())
        c = r.randrange(13)
        if c <= 2:
            a, b = self.int_(d - 1), self.int_(d - 1)
            if a[0] == "lit" and b[0] == "lit":
                a = ("col", r.choice(ints)) if ints else ("plit", a[1])
            return ("bin", r.choice("+-"), a, b)
        if c == 3:
            return ("bin", "*", self.int_(d - 1), ("lit", r.choice([-1, 2, 3])))
        if c == 4:
            a = self.int_(d - 1)
            if a[0] == "lit":
                a = ("plit", a[1])
            return ("bin", r.choice(["//", "%"]), a, ("lit", r.choice([2, 3, -2])))
        if c == 5:
            a = self.int_(d - 1)
            return (r.choice(["neg", "abs"]), a if a[0] != "lit" else ("plit", a[1]))
        if c == 6:
            a = self.int_(d - 1)
            return ("fill_null", a if a[0] != "lit" else ("plit", a[1]), self.int_(d - 1))
        if c == 7:
            return (r.choice(["when", "when", "when1"]), self.bool_(d - 1), self.int_(d - 1), self.int_(d - 1))
        if c == 8:
            return (r.choice(["hmin", "hmax"]), self._nonlit(self.int_(d - 1)), self.int_(d - 1))
        if c == 9:
            return ("coalesce", self._nonlit(self.int_(d - 1)), self.int_(d - 1))
        if c == 10:
            lo = r.choice([-1, 0, 1])
            return ("clip", self._nonlit(self.int_(d - 1)), lo, lo + r.choice([0, 1, 3]))
        if c == 11:
            return ("cast_int", self._nonlit(self.bool_(d - 1)))
        return ("col", r.choice(ints)) if ints else ("lit", self.lit_i())

    def _nonlit(self, e):
        return ("plit", e[1]) if e[0] == "lit" else e

    def _colful(self, e, ty):
        """argument of an aggregate / window function: must depend on a column"""
        if e[0] in ("lit", "plit"):
            r = self.rng
            if self.names(ty):
                return ("col", r.choice(self.names(ty)))
            if ty == B and self.names(I):
                return ("bin", ">", ("col", r.choice(self.names(I))), ("lit", 0))
            if ty == I and self.names(B):
                return ("cast_int", ("col", r.choice(self.names(B))))
        return e

    def bool_(self, d):
        r = self.rng
        bools = self.names(B)
        if d <= 0:
            if bools and r.random() < 0.4:
                return ("col", r.choice(bools))
            return ("bin", r.choice(["==", "!=", "<", "<=", ">", ">="]), self._nonlit(self.int_(0)), self.int_(0))
        c = r.randrange(9)
        if c <= 2:
            return ("bin", r.choice(["==", "!=", "<", "<=", ">", ">="]), self._nonlit(self.int_(d - 1)), self.int_(d - 1))
        if c == 3:
            return ("bin", r.choice("&|^"), self._nonlit(self.bool_(d - 1)), self._nonlit(self.bool_(d - 1)))
        if c == 4:
            return ("not", self._nonlit(self.bool_(d - 1)))
        if c == 5:
            x = self._nonlit(self.int_(d - 1)) if r.random() < 0.7 or not bools else ("col", r.choice(bools))
            return (r.choice(["is_null", "is_not_null"]), x)
        if c == 6:
            return ("is_in", self._nonlit(self.int_(d - 1)), tuple(r.sample([-1, 0, 1, 2, 3], r.choice([1, 2, 3]))))
        if c == 7 and bools:
            return ("fill_null", ("col", r.choice(bools)), ("lit", r.choice([True, False])))
        if bools and r.random() < 0.5:
            return ("col", r.choice(bools))
        return ("bin", r.choice(["==", "<", ">="]), self._nonlit(self.int_(d - 1)), self.int_(d - 1))

    def any_(self, d):
        return (self.int_(d), I) if self.rng.random() < 0.75 else (self.bool_(d), B)

    def order(self, kmax=2, total=False):
        r = self.rng
        if total:
            names = [n for n, _ in self.cols]
            r.shuffle(names)
            return [(("col", n), r.random() < 0.4, r.random() < 0.6) for n in names]
        keys = []
        for _ in range(r.randint(1, kmax)):
            e = ("col", r.choice([n for n, _ in self.cols])) if r.random() < 0.75 else self._colful(self.int_(1), I)
            if not _has_col(e):
                e = ("col", r.choice([n for n, _ in self.cols]))
            keys.append((e, r.random() < 0.4, r.random() < 0.6))
        return keys

    def agg(self, ctx_extra=None, d=1):
        """an aggregate; returns (expr, type)"""
        r = self.rng
        ctx = dict(ctx_extra or {})
        if r.random() < 0.25:
            ctx["filter"] = self.bool_(1)
        c = r.randrange(8)
        if c <= 2:
            return ("agg", r.choice(["sum", "min", "max"]), self._colful(self.int_(d), I), ctx), I
        if c == 3:
            return ("agg", "count", self._colful(self.int_(d), I), ctx), I
        if c == 4:
            return ("count_star", ctx), I
        if c == 5:
            return ("agg", r.choice(["any", "all"]), self._nonlit(self.bool_(d)), ctx), B
        if c == 6:
            return ("agg", r.choice(["min", "max"]), self._nonlit(self.bool_(d)), ctx), B
        return ("agg", "sum", self._colful(self.int_(d), I), ctx), I

    def window(self, part):
        """a window function with explicit total arrange; returns (expr, type)"""
        r = self.rng
        ctx = {"arrange": self.order(total=True)}
        if part is not None:
            ctx["partition_by"] = part
        c = r.randrange(6)
        if c == 0:
            return ("row_number", ctx), I
        if c == 1:
            ctx["arrange"] = self.order(kmax=2)  # ranks are defined for partial orders
            return (r.choice(["rank", "dense_rank"]), ctx), I
        if c in (2, 3):
            x, ty = self.any_(1)
            x = self._colful(x, ty)
            fill = None if r.random() < 0.5 else (self.lit_i() if ty == I else r.choice([True, False]))
            return ("shift", x, r.choice([1, -1, 2]), fill, ctx), ty
        if c == 4:
            return ("cum_sum", self._colful(self.int_(1), I), ctx), I
        return ("row_number", ctx), I


# ---------------------------------------------------------------------------- verbs


class State:
    def __init__(self):
        self.cols = [("a", I), ("b", I), ("p", B)]
        self.group = []
        self.joined = False
        self.sql_dirty = set()  # what the current SELECT holds: 'window', 'agg', 'limit', 'summ', 'join'
        self.fresh = 0

    def new_name(self, r):
        if r.random() < 0.35 and self.cols:
            return r.choice([n for n, _ in self.cols if n not in self.group] or [f"n{self.fresh}"])
        self.fresh += 1
        return f"n{self.fresh}"

    def set_col(self, name, ty):
        for i, (n, _) in enumerate(self.cols):
            if n == name:
                self.cols[i] = (name, ty)
                return
        self.cols.append((name, ty))


def gen_program(stream, idx, nsteps=(2, 5)):
    r = random.Random(f"pv-gen-{stream}-{idx}")
    st = State()
    steps = []  # (kind, payload)
    n = r.randint(*nsteps)
    alias_p = r.choice([0.3, 0.9, 1.0])

    def maybe_alias(needs):
        """insert alias() before a verb that may need a subquery"""
        if st.sql_dirty & needs and r.random() < alias_p:
            steps.append(("alias", None))
            st.sql_dirty.clear()

    while len([s for s in steps if s[0] != "alias"]) < n:
        g = G(r, st.cols)
        ints, bools = g.names(I), g.names(B)
        kinds = ["mutate", "mutate", "filter", "filter", "select", "rename", "arrange", "slice", "winmut", "aggmut", "summ", "group", "join", "drop", "union"]
        k = r.choice(kinds)
        if k == "mutate":
            maybe_alias({"summ", "limit"} if r.random() < 0.3 else set())
            kw = {}
            for _ in range(r.choice([1, 1, 2])):
                e, ty = g.any_(r.choice([1, 2, 2, 3]))
                if e[0] == "lit":
                    e = ("plit", e[1]) if r.random() < 0.5 else e
                kw[st.new_name(r)] = (e, ty)
            steps.append(("mutate", {k_: e for k_, (e, _) in kw.items()}))
            for k_, (_, ty) in kw.items():
                st.set_col(k_, ty)
        elif k == "filter":
            maybe_alias({"window", "agg", "limit", "summ"})
            steps.append(("filter", [g._nonlit(g.bool_(r.choice([1, 2]))) for _ in range(r.choice([1, 1, 2]))]))
            st.sql_dirty.add("filter")
        elif k == "select" and len(st.cols) > 1:
            keep = [c for c in st.cols if c[0] in st.group or r.random() < 0.7] or st.cols[:1]
            r.shuffle(keep)
            steps.append(("select", [c[0] for c in keep]))
            st.cols = keep
        elif k == "drop" and len(st.cols) > 2:
            cand = [c for c in st.cols if c[0] not in st.group]
            if len(cand) > 1:
                d = r.choice(cand)
                steps.append(("drop", [d[0]]))
                st.cols = [c for c in st.cols if c != d]
        elif k == "rename" and st.cols:
            # swap two names or introduce a new one
            if len(st.cols) >= 2 and r.random() < 0.5:
                x, y = r.sample([c[0] for c in st.cols], 2)
                m = {x: y, y: x}
            else:
                st.fresh += 1
                m = {r.choice(st.cols)[0]: f"r{st.fresh}"}
            steps.append(("rename", m))
            st.cols = [(m.get(nm, nm), ty) for nm, ty in st.cols]
            st.group = [m.get(nm, nm) for nm in st.group]
        elif k == "arrange":
            steps.append(("arrange", g.order(kmax=3)))
        elif k == "slice" and not st.group and not st.joined:
            maybe_alias({"limit", "summ"} if r.random() < 0.3 else set())
            steps.append(("arrange", g.order(total=True)))
            steps.append(("slice", (r.choice([1, 2, 3]), r.choice([0, 0, 1]))))
            st.sql_dirty.add("limit")
        elif k == "winmut" and not st.joined:  # windows over joined tables: c08 (J/K/Q then W); here the queries time out
            maybe_alias({"limit", "window", "agg", "summ", "filter"} if r.random() < 0.8 else {"limit"})
            part = None if st.group or r.random() < 0.4 else r.sample([c[0] for c in st.cols], r.choice([1, 1, 2]) if len(st.cols) > 1 else 1)
            e, ty = g.window(part)
            if r.random() < 0.3 and ty == I:
                e = ("bin", r.choice("+-"), e, g.int_(1))
            name = st.new_name(r)
            steps.append(("mutate", {name: e}))
            st.set_col(name, ty)
            st.sql_dirty.add("window")
        elif k == "aggmut":
            maybe_alias({"limit", "window", "agg", "summ", "filter"} if r.random() < 0.8 else {"limit"})
            part = None if st.group or r.random() < 0.4 else r.sample([c[0] for c in st.cols], 1)
            e, ty = g.agg({"partition_by": part} if part else None)
            if r.random() < 0.3 and ty == I:
                e = ("bin", r.choice("+-"), g._nonlit(g.int_(1)), e)
            name = st.new_name(r)
            steps.append(("mutate", {name: e}))
            st.set_col(name, ty)
            st.sql_dirty.add("agg")
        elif k == "group" and not st.group:
            grp = r.sample([c[0] for c in st.cols], r.choice([1, 1, 2]) if len(st.cols) > 1 else 1)
            steps.append(("group_by", grp))
            st.group = grp
        elif k == "summ":
            maybe_alias({"limit", "window", "agg", "summ"})
            if not st.group and r.random() < 0.7:
                grp = r.sample([c[0] for c in st.cols], r.choice([1, 1, 2]) if len(st.cols) > 1 else 1)
                steps.append(("group_by", grp))
                st.group = grp
            kw, newcols = {}, [c for c in st.cols if c[0] in st.group]
            gcols = G(r, st.cols)
            for _ in range(r.choice([1, 2, 2])):
                e, ty = gcols.agg()
                if r.random() < 0.25 and ty == I:
                    e2, _ = gcols.agg()
                    if _ == I:
                        e = ("bin", r.choice("+-"), e, e2)
                st.fresh += 1
                nm = f"s{st.fresh}"
                kw[nm] = e
                newcols.append((nm, ty))
            steps.append(("summarize", kw))
            # grouping columns first (in group_by order? no: in table order is what REF models) - keep REF's rule: group order
            st.cols = [(gname, dict(st.cols)[gname]) for gname in st.group] + [c for c in newcols if c[0] not in st.group]
            st.group = []
            st.sql_dirty = {"summ"}
        elif k == "join" and not st.joined and not st.group and ints:
            maybe_alias({"limit", "window", "agg", "summ", "filter"} if r.random() < 0.8 else set())
            how = r.choice(["inner", "left", "left", "full"])
            lk = r.choice(ints)
            right_pre = r.choice([None, None, "filter", "mutate"])
            steps.append(("join", (how, lk, right_pre)))
            st.joined = True
            names = {c[0] for c in st.cols}
            for nm, ty in (("k", I), ("x", I)) + ((("q", I),) if right_pre == "mutate" else ()):
                assert nm + "_u" not in names  # an explicit suffix is appended to every right column
                st.cols.append((nm + "_u", ty))
            st.sql_dirty.add("join")
        elif k == "union" and not st.group and not st.joined and len(st.cols) >= 1 and r.random() < 0.5:
            # union with a projection of the source onto the current names / types (a, b, p re-derived)
            steps.append(("union", ([(nm, ty) for nm, ty in st.cols], r.random() < 0.4)))
            st.sql_dirty = {"summ"}
            st.joined = True  # keeps the program to one binary verb
    if st.group and r.random() < 0.7:
        steps.append(("ungroup", None))
    return steps


def run_steps(steps):
    def prog(p, t, u):
        cur = t
        for k, a in steps:
            if k == "mutate":
                cur = cur >> p.mutate(**{n: build(p, e) for n, e in a.items()})
            elif k == "filter":
                cur = cur >> p.filter(*[build(p, e) for e in a])
            elif k == "select":
                cur = cur >> p.select(*[getattr(p.C, n) for n in a])
            elif k == "drop":
                cur = cur >> p.drop(*[getattr(p.C, n) for n in a])
            elif k == "rename":
                cur = cur >> p.rename(dict(a))
            elif k == "arrange":
                cur = cur >> p.arrange(*[order_key(p, o) for o in a])
            elif k == "slice":
                cur = cur >> p.slice_head(a[0], offset=a[1])
            elif k == "group_by":
                cur = cur >> p.group_by(*[getattr(p.C, n) for n in a])
            elif k == "ungroup":
                cur = cur >> p.ungroup()
            elif k == "summarize":
                cur = cur >> p.summarize(**{n: build(p, e) for n, e in a.items()})
            elif k == "alias":
                cur = cur >> p.alias("z")
            elif k == "join":
                how, lk, pre = a
                right = u
                if pre == "filter":
                    right = u >> p.filter(p.C.x > 0)
                elif pre == "mutate":
                    right = u >> p.mutate(q=p.C.x + 1)
                on = getattr(cur, lk) == right.k
                cur = cur >> p.join(right, on, how, suffix="_u")
            elif k == "union":
                cols, distinct = a
                proj = {}
                for j, (nm, ty) in enumerate(cols):
                    proj[nm] = (t.a + j) if ty == I else (t.p | (t.b > j))
                right = t >> p.mutate(**proj) >> p.select(*[getattr(p.C, nm) for nm, _ in reversed(cols)]) >> p.alias("w")
                cur = cur >> p.union(right, distinct=distinct)
            else:
                raise AssertionError(k)
        return cur

    return prog


def show_steps(steps):
    out = []
    for k, a in steps:
        if k == "mutate" or k == "summarize":
            out.append(f"{k}(" + ", ".join(f"{n}={show(e)}" for n, e in a.items()) + ")")
        elif k == "filter":
            out.append("filter(" + ", ".join(show(e) for e in a) + ")")
        elif k == "arrange":
            out.append("arrange(" + ", ".join(show(e) + ("↓" if d else "") + ("⊥last" if nl else "⊥first") for e, d, nl in a) + ")")
        else:
            out.append(f"{k}({a})" if a is not None else f"{k}()")
    return " >> ".join(out)


def template(stream, idx, props=("C01",), mode="ref", prefix="gen"):
    steps = gen_program(stream, idx)
    return Template(f"{prefix}.{stream}.{idx}", SRC, run_steps(steps), props=props, mode=mode, note=show_steps(steps))


def templates_for(prop, cfg, count=None):
    """the first `count` programs of stream cfg.seed whose class is `prop` (names stay `gen.<stream>.<idx>`)"""
    if count is None:
        count = 16 if cfg.tier == "quick" else 64
    out, idx = [], 0
    while len(out) < count and idx < 40 * count:
        steps = gen_program(cfg.seed, idx)
        if classify(steps) == prop:
            out.append(Template(f"gen.{cfg.seed}.{idx}", SRC, run_steps(steps), props=(prop,), mode="ref", note=show_steps(steps)))
        idx += 1
    return out


def by_name(name, **kw):
    stream, idx = name[name.index("gen.") + 4 :].split(".")[:2]
    return template(int(stream), int(idx), **kw)
