"""C18: Python literals reach SQL as data.  Column data are symbolic strings over the
printable ASCII range plus 'é' and newline (so every SQL / LIKE metacharacter is in
range); the literal is a program constant drawn from all strings of length <= 2 (quick:
length 1 + selected pairs) over the metacharacter alphabet, in every literal-taking position.
z3 shows SEM_sqlite(sql) == SEM_polars(plan) == REF for all column strings; the SQL text
must parse into the same statement shape as with a harmless literal."""

from __future__ import annotations

import itertools

from ..e1 import Template
from ..kernel import BOOL, INT, STR

S = [("t", {"s": STR, "a": INT})]
DATA = ["PRINTABLE", "é", "\n"]
META = ["'", '"', "\\", "%", "_", "/", "-", ";", "\n", "a", "A", "é"]
PAIRS = ["%(x)s", "%s", ":x", "?", "--", "/*", "';", "%_", "\\'", "''", "_a", "a%", "%%", "\\%", "/%", "//", "\\\\", "a'", '"a', ";\n", "Aa", "é%"]
REPLACE_EXTRA = [".", "$", ".a", "a.", "$1"]


def literals(cfg):
    if cfg.tier == "quick":
        return META + PAIRS
    return META + ["".join(x) for x in itertools.product(META, repeat=2)] + ["';--", "/**/", "%_%"]


def lname(lit):
    return "".join(f"{ord(ch):02x}" for ch in lit)


POS = {
    "eq": lambda p, t, L: t >> p.mutate(y=t.s == L),
    "ne_filter": lambda p, t, L: t >> p.filter(t.s != L),
    "is_in": lambda p, t, L: t >> p.mutate(y=t.s.is_in(L, "zz")),
    "concat_r": lambda p, t, L: t >> p.mutate(y=t.s + L),
    "concat_l": lambda p, t, L: t >> p.mutate(y=L + t.s),
    "starts_with": lambda p, t, L: t >> p.mutate(y=t.s.str.starts_with(L)),
    "ends_with": lambda p, t, L: t >> p.mutate(y=t.s.str.ends_with(L)),
    "contains": lambda p, t, L: t >> p.mutate(y=t.s.str.contains(L, allow_regex=False)),
    "replace_pat": lambda p, t, L: t >> p.mutate(y=t.s.str.replace_all(L, "x")),
    "replace_rep": lambda p, t, L: t >> p.mutate(y=t.s.str.replace_all("a", L)),
    "case_val": lambda p, t, L: t >> p.mutate(y=p.when(t.s == L).then(L).otherwise(t.s)),
    "const": lambda p, t, L: t >> p.mutate(k=L) >> p.filter(p.C.k == L),
    "fill_null": lambda p, t, L: t >> p.mutate(y=t.s.fill_null(L)),
    "starts_filter": lambda p, t, L: t >> p.filter(t.s.str.starts_with(L) | t.s.is_null()),
}


def templates(cfg):
    out = []
    lits = literals(cfg)
    for pos, f in POS.items():
        ls = list(lits)
        if pos == "replace_pat":
            ls = ls + REPLACE_EXTRA
        if cfg.tier == "quick" and pos in ("fill_null", "starts_filter", "ne_filter", "concat_l", "const"):
            ls = META  # single characters only
        for L in ls:
            if pos == "replace_rep" and "$" in L:
                continue
            out.append(
                Template(
                    f"c18.{pos}.{lname(L)}", S, lambda p, t, f=f, L=L: f(p, t, L), props=("C18",), nmax=2, alphabet=DATA,
                    note=f"literal {L!r}", str_len=3 if cfg.tier == "quick" else 4,
                )  # fmt: skip
            )
    # non-string literals
    N = lambda name, prog: out.append(Template(f"c18.{name}", [("t", {"a": INT, "p": BOOL})], prog, props=("C18",), nmax=2))  # noqa: E731
    N("neg_int", lambda p, t: t >> p.mutate(y=t.a + -3, z=t.a * -1, w=-5))
    N("neg_neg", lambda p, t: t >> p.mutate(k=-1) >> p.mutate(b=-p.C.k, c=t.a - -2))
    N("bool_lits", lambda p, t: t >> p.mutate(y=t.p == True, z=t.p | False, k=True) >> p.filter(p.C.k))  # noqa: E712
    N("none_lit", lambda p, t: t >> p.mutate(n=None, y=t.a == None, z=p.coalesce(None, t.a)) >> p.filter(t.a != None))  # noqa: E711
    N("none_in_case", lambda p, t: t >> p.mutate(y=p.when(t.a == None).then(1).otherwise(None), z=t.a.is_in(None, 2)))  # noqa: E711
    return out
