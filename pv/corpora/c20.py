"""C20 (solver part 1): ColExpr.export - the table synthesised by get_expr_as_table for an
expression equals the expression evaluated as one column over its ancestor table."""

from __future__ import annotations

from ..e1 import Template
from ..kernel import BOOL, INT

S = [("t", {"a": INT, "b": INT, "p": BOOL})]


def templates(cfg):
    out = []

    def T(name, prog, **kw):
        out.append(Template(f"c20.{name}", S, prog, props=("C20",), **kw))

    T("col", lambda p, t: p.expr_table(t, t.a))
    T("arith", lambda p, t: p.expr_table(t, t.a + t.b * 2))
    T("bool", lambda p, t: p.expr_table(t, t.p & (t.a > t.b)))
    T("case", lambda p, t: p.expr_table(t, p.when(t.a > 0).then(t.b).otherwise(-1)))
    T("agg", lambda p, t: p.expr_table(t, t.b.sum()))
    T("window", lambda p, t: p.expr_table(t, t.b.sum(partition_by=t.a)))
    T("rank", lambda p, t: p.expr_table(t, p.rank(arrange=[t.a.nulls_last()])))

    def derived(p, t):
        d = t >> p.mutate(c=t.a - t.b) >> p.filter(t.a > 0)
        return p.expr_table(d, d.c * 2 + t.b)

    T("derived_table", derived)

    def renamed(p, t):
        d = t >> p.rename({"a": "b", "b": "a"})
        return p.expr_table(d, d.a - t.a)

    T("renamed_mixed_refs", renamed)

    def hidden(p, t):
        d = t >> p.select(t.b) >> p.mutate(z=t.a + 1)
        return p.expr_table(d, d.z + t.a)

    T("hidden_col", hidden)

    def col_of_derived(p, t):
        d = t >> p.mutate(a=t.a + 1)
        return p.expr_table(d, d.a)

    T("col_overwritten", col_of_derived)
    # a column looked up in a derived table through a reference of its ancestor: derived[t.x]
    def getitem_filtered(p, t):
        d = t >> p.filter(t.a > 0) >> p.rename({"b": "bb"})
        return p.expr_table(d, d[t.b] + d[t.a])

    T("getitem_col.filtered", getitem_filtered)

    def getitem_sliced(p, t):
        d = t >> p.arrange(t.a.nulls_last(), t.b.nulls_last(), t.p.nulls_last()) >> p.slice_head(2)
        return p.expr_table(d, d[t.b])

    T("getitem_col.sliced", getitem_sliced)

    def getitem_single(p, t):
        d = t >> p.filter(t.p)
        return p.expr_table(d, d[t.a])

    T("getitem_col.single_filtered", getitem_single)

    def getitem_mixed(p, t):
        d = t >> p.mutate(c=t.a + 1) >> p.filter(t.b.is_not_null())
        return p.expr_table(d, p.when(d[t.a] > 0).then(d.c).otherwise(d[t.b]))

    T("getitem_col.mixed_case", getitem_mixed)
    # pipelines whose only effect is on names / order: every target must show the same order
    T("perm_select", lambda p, t: t >> p.select(t.p, t.a, t.b))
    T("perm_select_filter", lambda p, t: t >> p.select(t.b, t.p, t.a) >> p.filter(t.a > 0))
    T("perm_rename", lambda p, t: t >> p.select(t.p, t.b, t.a) >> p.rename({"a": "b", "b": "a"}))
    T("perm_after_join", lambda p, t: t >> p.inner_join(t >> p.alias("u"), t.a == p.C.a if False else t.a == t.b) if False else t >> p.mutate(z=t.a) >> p.select(p.C.z, t.p, t.b, t.a))
    return out
