"""C05: arrange (markers, stability, priority) and window functions vs REF."""

from __future__ import annotations

import itertools

from ..e1 import Template
from ..kernel import BOOL, INT
from .common import rotated

S = [("t", {"a": INT, "b": INT, "g": INT})]


def M(col, desc, nl):
    """apply markers to a column expression"""
    e = col
    if desc:
        e = e.descending()
    if nl is True:
        e = e.nulls_last()
    elif nl is False:
        e = e.nulls_first()
    return e


MARKS = [(False, True), (False, False), (True, True), (True, False)]
MARKS_ALL = MARKS + [(False, None), (True, None)]


def mk_name(d, nl):
    return ("desc" if d else "asc") + {True: "_nl", False: "_nf", None: ""}[nl]


WIN = {
    "row_number": lambda p, t, kw: p.row_number(**kw),
    "rank": lambda p, t, kw: p.rank(**kw),
    "dense_rank": lambda p, t, kw: p.dense_rank(**kw),
    "shift1": lambda p, t, kw: t.b.shift(1, **kw),
    "shiftm1": lambda p, t, kw: t.b.shift(-1, **kw),
    "shift2_fill": lambda p, t, kw: t.b.shift(2, 0, **kw),
    "cum_sum": lambda p, t, kw: t.b.cum_sum(**kw),
}
AGGW = {
    "sum": lambda p, t, kw: t.b.sum(**kw),
    "max": lambda p, t, kw: t.b.max(**kw),
    "min": lambda p, t, kw: t.b.min(**kw),
    "count": lambda p, t, kw: t.b.count(**kw),
    "count_star": lambda p, t, kw: p.count(**kw),
    "mean": lambda p, t, kw: t.b.mean(**kw),
}


def templates(cfg):
    out = []
    T = lambda name, prog, **kw: out.append(Template(f"c05.{name}", S, prog, props=("C05",), **kw))  # noqa: E731
    # --- arrange: one key, all marker combinations; two keys; priority of a later arrange
    for d, nl in MARKS_ALL:
        T(f"arr1.{mk_name(d, nl)}", lambda p, t, d=d, nl=nl: t >> p.arrange(M(t.a, d, nl)))
    for (d1, n1), (d2, n2) in itertools.product(MARKS, MARKS):
        if cfg.tier == "quick" and (d1, n1, d2, n2) not in {(False, True, True, False), (True, False, False, True), (True, True, True, True), (False, False, False, False)}:
            continue
        T(f"arr2.{mk_name(d1, n1)}.{mk_name(d2, n2)}", lambda p, t, d1=d1, n1=n1, d2=d2, n2=n2: t >> p.arrange(M(t.g, d1, n1), M(t.a, d2, n2)))
    T("arr_later_priority", lambda p, t: t >> p.arrange(t.a.nulls_last()) >> p.arrange(t.g.descending().nulls_first()))
    T("arr_later_priority3", lambda p, t: t >> p.arrange(t.b.nulls_last()) >> p.arrange(t.a.nulls_last()) >> p.arrange(t.g.nulls_first()))
    T("arr_expr", lambda p, t: t >> p.arrange((t.a + t.b).descending().nulls_last(), t.g.nulls_last()))
    T("arr_marker_order", lambda p, t: t >> p.arrange(t.a.nulls_last().descending(), t.b.nulls_first()))
    T("arr_then_mutate_filter_slice", lambda p, t: t >> p.arrange(t.a.descending().nulls_last(), t.b.nulls_last()) >> p.mutate(c=t.a + 1) >> p.filter(t.g > 0) >> p.slice_head(2))
    T("arr_select_rename_slice", lambda p, t: t >> p.arrange(t.b.nulls_first(), t.a.nulls_first()) >> p.select(t.a, t.g) >> p.rename({"g": "h"}) >> p.slice_head(2, offset=1))
    T("arr_slice_desc_nf", lambda p, t: t >> p.arrange(t.a.descending().nulls_first(), t.b.descending().nulls_first()) >> p.slice_head(2))
    T("arr_on_mutated", lambda p, t: t >> p.mutate(k=t.a - t.b) >> p.arrange(p.C.k.nulls_last(), t.a.nulls_last()) >> p.slice_head(2))
    T("arr_nomarker_nonnull", lambda p, t: t >> p.arrange(t.a.descending(), t.b) >> p.slice_head(2))
    # --- window functions: partition x order markers
    parts = {
        "nopart": lambda p, t: {},
        "part_g": lambda p, t: {"partition_by": t.g},
        "part_ga": lambda p, t: {"partition_by": [t.g, t.a]},
    }
    for wname, w in WIN.items():
        for pname, pf in parts.items():
            for d, nl in MARKS:
                if cfg.tier == "quick":
                    if pname == "part_ga" and (d, nl) != (True, False):
                        continue
                    if pname == "nopart" and (d, nl) not in ((False, True), (True, False)):
                        continue
                    if pname == "part_g" and (d, nl) not in ((False, False), (True, True), (True, False)):
                        continue
                if pname == "part_ga":
                    arr = lambda p, t, d=d, nl=nl: [M(t.b, d, nl)]  # noqa: E731
                else:
                    arr = lambda p, t, d=d, nl=nl: [M(t.a, d, nl), M(t.b, not d, nl)]  # noqa: E731
                prog = lambda p, t, w=w, pf=pf, arr=arr: t >> p.mutate(y=w(p, t, {"arrange": arr(p, t), **pf(p, t)}))  # noqa: E731
                T(f"win.{wname}.{pname}.{mk_name(d, nl)}", prog)
    # grouping via group_by is the same as partition_by=
    for wname in ("row_number", "shift1", "cum_sum", "rank"):
        w = WIN[wname]
        T(f"win_grouped.{wname}", lambda p, t, w=w: t >> p.group_by(t.g) >> p.mutate(y=w(p, t, {"arrange": [t.a.nulls_last(), t.b.nulls_last()]})) >> p.ungroup())
    for aname, a in AGGW.items():
        T(f"aggwin.{aname}.part_g", lambda p, t, a=a: t >> p.mutate(y=a(p, t, {"partition_by": t.g})))
        T(f"aggwin.{aname}.grouped", lambda p, t, a=a: t >> p.group_by(t.g) >> p.mutate(y=a(p, t, {})) >> p.ungroup())
        T(f"aggwin.{aname}.nopart", lambda p, t, a=a: t >> p.mutate(y=a(p, t, {})))
    # --- positions relative to other verbs: the window sees exactly the rows present
    rn = lambda p, t: p.row_number(arrange=[t.a.nulls_last(), t.b.nulls_last()])  # noqa: E731
    T("pos.filter_then_window", lambda p, t: t >> p.filter(t.g > 0) >> p.mutate(y=rn(p, t), s=t.b.sum()))
    T("pos.window_then_filter_alias", lambda p, t: t >> p.mutate(y=rn(p, t), s=t.b.sum(partition_by=t.g)) >> p.alias("z") >> p.filter(p.C.g > 0))
    T("pos.window_then_filter_on_window", lambda p, t: t >> p.mutate(y=rn(p, t)) >> p.alias("z") >> p.filter(p.C.y <= 2))
    T("pos.window_then_unrelated_filter", lambda p, t: t >> p.mutate(y=rn(p, t), s=t.b.sum()) >> p.filter(t.g > 0))
    T("pos.slice_alias_window", lambda p, t: t >> p.arrange(t.a.nulls_last(), t.b.nulls_last()) >> p.slice_head(2) >> p.alias("z") >> p.mutate(y=p.C.b.sum(), r=p.row_number(arrange=[p.C.b.nulls_last(), p.C.a.nulls_last()])))
    T("pos.slice_then_nested_window", lambda p, t: t >> p.arrange(t.a.nulls_last(), t.b.nulls_last(), t.g.nulls_last()) >> p.slice_head(2) >> p.alias("z") >> p.mutate(y=p.C.b - p.C.b.max(partition_by=p.C.g), r=p.row_number(arrange=[p.C.a.nulls_last(), p.C.b.nulls_last(), p.C.g.nulls_last()]) * 2))
    T("pos.slice_then_nested_agg_window", lambda p, t: t >> p.arrange(t.a.nulls_last(), t.b.nulls_last(), t.g.nulls_last()) >> p.slice_head(2) >> p.alias("z") >> p.mutate(y=p.when(p.C.b.sum() > 0).then(p.C.b.count()).otherwise(0)))
    # a window / aggregate function in the CONDITION of a case expression makes the column a window column (F59)
    T("pos.window_in_case_condition_then_filter", lambda p, t: t >> p.mutate(y=p.when(rn(p, t) > 1).then(t.b).otherwise(0)) >> p.filter(t.g > 0))
    T("pos.window_in_case_condition_alias_filter", lambda p, t: t >> p.mutate(y=p.when(rn(p, t) > 1).then(t.b).otherwise(0)) >> p.alias("z") >> p.filter(p.C.g > 0))
    T("pos.agg_in_case_condition_then_filter", lambda p, t: t >> p.mutate(y=p.when(t.b.max() > t.b).then(1).otherwise(0)) >> p.filter(t.g > 0))
    T("pos.agg_in_case_condition_summarize", lambda p, t: t >> p.group_by(t.g) >> p.summarize(y=p.when(t.b.max() > 1).then(1).otherwise(0)) >> p.alias("z") >> p.filter(p.C.y > 0))
    T("pos.slice_then_window", lambda p, t: t >> p.arrange(t.a.nulls_last(), t.b.nulls_last()) >> p.slice_head(2) >> p.mutate(y=t.b.sum()))
    T("pos.window_then_slice", lambda p, t: t >> p.mutate(y=t.b.sum(partition_by=t.g)) >> p.arrange(t.a.nulls_last(), t.b.nulls_last()) >> p.slice_head(2))
    T("pos.window_select_rename", lambda p, t: t >> p.mutate(y=rn(p, t)) >> p.select(p.C.y, t.a) >> p.rename({"y": "a", "a": "y"}))
    T("pos.window_of_window_alias", lambda p, t: t >> p.mutate(y=t.b.sum(partition_by=t.g)) >> p.alias("z") >> p.mutate(r=p.rank(arrange=[p.C.y.descending().nulls_last()])))
    T("pos.two_windows", lambda p, t: t >> p.mutate(r=rn(p, t), d=p.dense_rank(arrange=[t.g.nulls_first()]), c=t.b.cum_sum(arrange=[t.a.nulls_last(), t.b.nulls_last()], partition_by=t.g)))
    T("pos.window_in_expr", lambda p, t: t >> p.mutate(y=t.b - t.b.min(partition_by=t.g) + rn(p, t)))
    T("pos.arrange_by_window", lambda p, t: t >> p.mutate(y=t.b.sum(partition_by=t.g)) >> p.arrange(p.C.y.nulls_last(), t.a.nulls_last(), t.b.nulls_last()))
    SB = [("t", {"a": INT, "p": BOOL, "g": INT})]
    out.append(Template("c05.typed.shift_bool_fwd", SB, lambda p, t: t >> p.mutate(y=t.p.shift(-1, arrange=[t.a.nulls_last(), t.g.nulls_last()]), z=t.p.shift(1, arrange=[t.a.nulls_last(), t.g.nulls_last()])), props=("C05",)))
    out.append(Template("c05.typed.shift_bool_fill", SB, lambda p, t: t >> p.mutate(y=t.p.shift(-1, False, arrange=[t.a.nulls_last(), t.g.nulls_last()], partition_by=t.g)), props=("C05",)))
    # two order keys computed from the same column (polars names expressions after their root column)
    S2 = [("t", {"a": INT, "b": INT, "g": INT})]
    out.append(Template("c05.samecol.row_number_part", S2, lambda p, t: t >> p.mutate(r=p.row_number(arrange=[(t.a % 2).nulls_last(), t.a.descending().nulls_last(), t.b.nulls_last()], partition_by=t.g)), props=("C05",), nmax=3, int_bound=16, tags=("nonlinear",)))
    out.append(Template("c05.samecol.shift_grouped", S2, lambda p, t: t >> p.group_by(t.g) >> p.mutate(r=t.b.shift(1, arrange=[(t.a + t.b).nulls_last(), t.a.nulls_last(), t.b.nulls_last()])) >> p.ungroup(), props=("C05",), nmax=3))
    out.append(Template("c05.samecol.rank", S2, lambda p, t: t >> p.mutate(r=p.rank(arrange=[(t.a * 0 + 1).nulls_last(), t.a.nulls_last()]), d=p.dense_rank(arrange=[t.a.nulls_last(), (-t.a).nulls_last()])), props=("C05",), nmax=3))
    out.append(Template("c05.samecol.rank_part", S2, lambda p, t: t >> p.mutate(r=p.rank(arrange=[(t.a - t.b).nulls_last(), t.a.nulls_last()], partition_by=t.g)), props=("C05",), nmax=3))
    out.append(Template("c05.samecol.cum_sum_part", S2, lambda p, t: t >> p.mutate(r=t.b.cum_sum(arrange=[t.a.nulls_last(), (t.a + 1).descending().nulls_last(), t.b.nulls_last(), t.g.nulls_last()], partition_by=t.g)), props=("C05",), nmax=3))
    out.append(Template("c05.samecol.arrange_same_key_later_wins", S2, lambda p, t: t >> p.arrange(t.a.nulls_last(), t.b.nulls_last(), t.g.nulls_last()) >> p.arrange(t.a.descending().nulls_first()) >> p.slice_head(2), props=("C05",), nmax=3))
    out.append(Template("c05.samecol.dup_key", S2, lambda p, t: t >> p.mutate(r=p.row_number(arrange=[t.a.nulls_last(), t.b.nulls_last(), t.a.descending().nulls_last()], partition_by=t.g)), props=("C05",), nmax=3))
    out.append(Template("c05.typed.bool_sum_nopart", SB, lambda p, t: t >> p.mutate(s=t.p.sum(), s1=t.p.sum() + 1, e=(t.a > 0).sum()), props=("C05",)))
    out.append(Template("c05.typed.bool_sum_grouped", SB, lambda p, t: t >> p.group_by(t.g) >> p.mutate(s=t.p.sum(), m=t.p.max()) >> p.ungroup(), props=("C05",)))
    out.append(Template("c05.typed.bool_sum_summarize", SB, lambda p, t: t >> p.group_by(t.g) >> p.summarize(s=t.p.sum(), e=(t.a > 0).sum()), props=("C05",)))
    out.append(Template("c05.typed.bool_window_aggs", SB, lambda p, t: t >> p.mutate(x=t.p.any(partition_by=t.g), y=t.p.all(), m=t.p.max(partition_by=t.g), s=t.p.sum(partition_by=t.g)), props=("C05",)))
    # grouping survives alias / select / rename / filter and still partitions the window
    T("grouping.through_alias", lambda p, t: t >> p.group_by(t.g) >> p.alias("z") >> p.mutate(y=p.C.b.sum(), r=p.row_number(arrange=[p.C.a.nulls_last(), p.C.b.nulls_last()])) >> p.ungroup())
    T("grouping.through_alias_keep", lambda p, t: t >> p.group_by(t.g) >> p.alias("z", keep_col_refs=True) >> p.mutate(y=t.b.sum()) >> p.ungroup())
    T("grouping.through_verbs", lambda p, t: t >> p.group_by(t.g) >> p.filter(t.a > 0) >> p.rename({"b": "c"}) >> p.select(t.g, t.b, t.a) >> p.mutate(y=t.b.max(), r=p.rank(arrange=[t.a.descending().nulls_last()])) >> p.ungroup())
    T("grouping.through_subquery", lambda p, t: t >> p.group_by(t.g) >> p.mutate(r=p.rank(arrange=[t.b.nulls_last()])) >> p.alias("z") >> p.filter(p.C.r <= 2) >> p.mutate(n=p.C.b.sum(), k=p.row_number(arrange=[p.C.a.nulls_last(), p.C.b.nulls_last()])) >> p.ungroup())
    T("grouping.add", lambda p, t: t >> p.group_by(t.g) >> p.group_by(t.a, add=True) >> p.mutate(y=t.b.sum()) >> p.ungroup())
    T("grouping.replace", lambda p, t: t >> p.group_by(t.g) >> p.group_by(t.a) >> p.mutate(y=t.b.sum()) >> p.ungroup())
    T("grouping.ungroup_resets", lambda p, t: t >> p.group_by(t.g) >> p.ungroup() >> p.mutate(y=t.b.sum()))
    T("grouping.explicit_overrides", lambda p, t: t >> p.group_by(t.g) >> p.mutate(y=t.b.sum(partition_by=t.a)) >> p.ungroup())
    # --- table order feeds window functions without arrange= (documented equivalence, C15)
    T("tableorder.grouped_shift", lambda p, t: t >> p.group_by(t.g) >> p.arrange(t.a.nulls_last(), t.b.nulls_last()) >> p.mutate(y=t.b.shift(1)) >> p.ungroup())
    T("tableorder.row_number", lambda p, t: t >> p.arrange(t.a.descending().nulls_last(), t.b.nulls_last()) >> p.mutate(y=p.row_number()))
    from . import temporal

    out += temporal.templates_for("C05", cfg)
    from . import gen

    out += gen.templates_for("C05", cfg)  # compositions drawn from the typed pipeline grammar (pv/corpora/gen.py)
    return out
