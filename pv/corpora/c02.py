"""C02: compositions of the row-level verbs vs REF (and, as a by-product, Polars vs SQLite)."""

from __future__ import annotations

import itertools

from ..e1 import Template
from .common import T_I3, T_IB, chain, rotated

# verb steps: (label, fn(p, t, src0) -> table).  `t0` is the source table object, so
# `t0.a` is a reference by origin, `p.C.a` a reference by name.
STEPS = {
    "mut_new": lambda p, t, t0: t >> p.mutate(d=t0.a + t0.b),
    "mut_over": lambda p, t, t0: t >> p.mutate(a=t0.a * 2 + 1),
    "mut_over_ref": lambda p, t, t0: t >> p.mutate(a=t0.b, b=t0.a),  # swap through overwrite; both evaluated pre-call
    "mut_chain": lambda p, t, t0: t >> p.mutate(d=t0.a - 1) >> p.mutate(e=p.C.d * t0.b),
    "mut_name": lambda p, t, t0: t >> p.mutate(b=p.C.b + 1),
    "mut_const": lambda p, t, t0: t >> p.mutate(k=7, n=None),
    "fil_gt": lambda p, t, t0: t >> p.filter(t0.a > 0),
    "fil_two": lambda p, t, t0: t >> p.filter(t0.a >= t0.b, t0.b != 2),
    "fil_null": lambda p, t, t0: t >> p.filter(t0.b.is_null() | (t0.a < 1)),
    "fil_name": lambda p, t, t0: t >> p.filter(p.C.b < 3),
    "sel_rev": lambda p, t, t0: t >> p.select(t0.b, t0.a),
    "sel_one": lambda p, t, t0: t >> p.select(t0.b),
    "sel_names": lambda p, t, t0: t >> p.select(p.C.b, p.C.a),
    "slice_past": lambda p, t, t0: t >> p.slice_head(2, offset=2),
    "slice1": lambda p, t, t0: t >> p.slice_head(1),
    "slice_big": lambda p, t, t0: t >> p.slice_head(3, offset=1),
    "arr_names": lambda p, t, t0: t >> p.arrange(p.C.a.nulls_last(), p.C.b.nulls_last(), p.C.c.nulls_last()),
    "fil_name_a": lambda p, t, t0: t >> p.filter(p.C.a > 0),
    "mut_name_d": lambda p, t, t0: t >> p.mutate(d=p.C.a + p.C.b),
    "drop_a": lambda p, t, t0: t >> p.drop(t0.a),
    "ren_swap": lambda p, t, t0: t >> p.rename({"a": "b", "b": "a"}),
    "ren_new": lambda p, t, t0: t >> p.rename({"a": "z"}),
    "slice": lambda p, t, t0: t >> p.slice_head(2),
    "slice_off": lambda p, t, t0: t >> p.slice_head(1, offset=1),
    "grp": lambda p, t, t0: t >> p.group_by(t0.b) >> p.ungroup(),
    "alias": lambda p, t, t0: t >> p.alias("z"),
    "arr": lambda p, t, t0: t >> p.arrange(t0.a.nulls_last(), t0.b.descending().nulls_first()),
}

# steps that are only valid while the referenced names / columns are still there
NEEDS_VISIBLE_NAME = {
    "mut_name": {"b"}, "fil_name": {"b"}, "ren_swap": {"a", "b"}, "ren_new": {"a"},
}  # fmt: skip
NEEDS_VISIBLE_COL = {"sel_rev": {"a", "b"}, "sel_one": {"b"}, "drop_a": {"a"}, "grp": {"b"}}
CUTS_REFS = {"alias"}


def _valid(seq):
    """static well-formedness of a step sequence (names/cols visible, refs not cut)"""
    names = {"a": "a", "b": "b", "c": "c"}  # name -> origin col (None if derived)
    cut = False
    for s in seq:
        if cut and s != "alias" and s not in ("mut_name", "fil_name", "ren_swap", "ren_new", "slice", "slice_off", "mut_const"):
            return False
        for n in NEEDS_VISIBLE_NAME.get(s, ()):
            if n not in names:
                return False
        for c in NEEDS_VISIBLE_COL.get(s, ()):
            if c not in names.values():
                return False
        if s == "mut_new":
            names["d"] = None
        elif s == "mut_over":
            names["a"] = None
        elif s == "mut_over_ref":
            names["a"] = None
            names["b"] = None
        elif s == "mut_chain":
            names["d"] = None
            names["e"] = None
        elif s == "mut_name":
            names["b"] = None
        elif s == "mut_const":
            names["k"] = None
            names["n"] = None
        elif s == "sel_rev":
            names = {k: v for k, v in names.items() if v in ("a", "b")}
        elif s == "sel_one":
            names = {k: v for k, v in names.items() if v == "b"}
        elif s == "drop_a":
            names = {k: v for k, v in names.items() if v != "a"}
        elif s == "ren_swap":
            names["a"], names["b"] = names["b"], names["a"]
        elif s == "ren_new":
            if "z" in names:
                return False
            names["z"] = names.pop("a")
        elif s == "alias":
            cut = True
    return True


TARGETED = [
    ("overwrite_select_rename", ["mut_over", "sel_names", "ren_swap"]),
    ("slices_past_end", ["arr", "slice1", "slice_past"]),
    ("slices_nested", ["arr", "slice_big", "slice", "slice_off"]),
    ("slice_then_filter", ["arr", "slice", "fil_gt"]),
    ("slice_alias_then_filter", ["arr", "slice_big", "alias", "fil_name_a"]),
    ("slice_alias_mutate_filter", ["arr", "slice_big", "alias", "mut_name_d", "fil_name_a"]),
    ("alias_below_slice_then_filter", ["alias", "mut_name_d", "arr_names", "slice_big", "fil_name_a"]),
    ("alias_below_slice_off_then_filter", ["alias", "arr_names", "slice_off", "fil_name_a"]),
    ("slice_mutate_filter", ["arr", "slice", "mut_new", "fil_two"]),
    ("slice_select_filter", ["arr", "slice_big", "sel_rev", "fil_gt"]),
    ("swap_then_filter_origin", ["mut_over_ref", "fil_gt"]),
    ("filter_then_overwrite", ["fil_two", "mut_over", "fil_name"]),
    ("two_slices", ["arr", "slice", "slice_off"]),
    ("slice_after_filter", ["arr", "fil_gt", "slice"]),
    ("hidden_then_mutate", ["sel_one", "mut_new"]),
    ("rename_hidden_name", ["drop_a", "mut_name", "ren_swap"] ),
    ("alias_then_name", ["mut_new", "alias", "fil_name"]),
    ("const_cols", ["mut_const", "fil_gt"]),
    ("empty_result", ["fil_gt", "fil_null", "sel_rev"]),
]


def templates(cfg):
    out = []
    for name, seq in TARGETED:
        if name == "rename_hidden_name":
            seq = ["drop_a", "mut_name"]
        out.append(Template(f"c02.t.{name}", T_I3, chain(*[STEPS[s] for s in seq]), props=("C02",)))
    # expression objects stored in a variable and used in several verb calls
    def reuse_case(p, t):
        shrink = p.when(p.C.a > 2).then(p.C.a - 2).otherwise(p.C.a)
        return t >> p.mutate(a=shrink) >> p.mutate(a=shrink) >> p.filter(shrink > 0)

    out.append(Template("c02.t.reuse_case_expr", T_I3, reuse_case, props=("C02",)))

    def reuse_after_swap(p, t):
        e = p.when(p.C.a > 0).then(p.C.b).otherwise(p.C.c)
        return t >> p.mutate(x=e) >> p.rename({"a": "b", "b": "a"}) >> p.mutate(y=e) >> p.filter(e.is_not_null())

    out.append(Template("c02.t.reuse_case_after_swap", T_I3, reuse_after_swap, props=("C02",)))

    def reuse_arith(p, t):
        e = p.C.a * 2 + t.b
        return t >> p.mutate(a=e) >> p.mutate(d=e) >> p.select(p.C.d, p.C.a) >> p.mutate(a=e)

    out.append(Template("c02.t.reuse_arith_expr", T_I3, reuse_arith, props=("C02",)))
    # select / drop / overwriting mutate only HIDE columns: the hidden original stays referable and keeps its data when the
    # pipeline is cut into a SQL subquery where the hidden and the visible column share one name (round 5, C02-F)
    ARR = lambda p, t: t >> p.arrange(t.b.nulls_last(), t.c.nulls_last(), t.a.nulls_last())  # noqa: E731

    def hidden_namesake_filter(p, t):
        return ARR(p, t >> p.mutate(a=t.a * 2 + 1)) >> p.slice_head(2) >> p.alias("z", keep_col_refs=True) >> p.filter(t.a > 0) >> p.mutate(w=t.a, v=p.C.a)

    out.append(Template("c02.t.hidden_namesake_subquery_filter", T_I3, hidden_namesake_filter, props=("C02",)))

    def hidden_namesake_window(p, t):
        return t >> p.mutate(a=t.b, r=p.row_number(arrange=[t.a.nulls_last(), t.b.nulls_last(), t.c.nulls_last()])) >> p.alias("z", keep_col_refs=True) >> p.filter(p.C.r <= 2) >> p.mutate(w=t.a, v=p.C.a)

    out.append(Template("c02.t.hidden_namesake_subquery_window", T_I3, hidden_namesake_window, props=("C02",)))
    # drop / select only hide columns: the remaining ones keep their relative order, also after an
    # overwriting mutate (compared with the same pipeline without the helper column, prog2)
    def E(name, A, B):
        out.append(Template(f"c02.t.{name}", T_I3, A, prog2=B, props=("C02",)))

    E("drop_keeps_order_after_overwrite",
      lambda p, t: t >> p.mutate(a=t.a + 1, tmp=t.b * 2) >> p.drop(p.C.tmp),
      lambda p, t: t >> p.mutate(a=t.a + 1))  # fmt: skip
    E("drop_keeps_order_overwrite_mid",
      lambda p, t: t >> p.mutate(tmp=t.c) >> p.mutate(b=t.b - 1) >> p.drop(p.C.tmp) >> p.mutate(z=p.C.b),
      lambda p, t: t >> p.mutate(b=t.b - 1) >> p.mutate(z=p.C.b))  # fmt: skip
    E("select_all_keeps_order_after_overwrite",
      lambda p, t: (lambda d: d >> p.select(*[c for c in d]))(t >> p.mutate(a=t.c, b=t.a)),
      lambda p, t: t >> p.mutate(a=t.c, b=t.a))  # fmt: skip
    E("rename_keeps_order_after_overwrite",
      lambda p, t: t >> p.mutate(a=t.a * 2) >> p.rename({"b": "x"}) >> p.rename({"x": "b"}),
      lambda p, t: t >> p.mutate(a=t.a * 2))  # fmt: skip
    L = 2 if cfg.tier == "quick" else 3
    keys = [k for k in STEPS if k not in ("slice", "slice_off", "sel_names", "slice_past", "slice_big", "slice1", "arr_names", "fil_name_a", "mut_name_d")]
    seqs = []
    for n in range(1, L + 1):
        for seq in itertools.product(keys, repeat=n):
            if _valid(seq):
                seqs.append(seq)
    # positions of rows only matter after an arrange: add slice variants after arr
    sl = []
    for seq in seqs:
        if "arr" in seq and seq[-1] != "arr" or seq == ("arr",):
            pass
        if seq and seq[-1] == "arr":
            sl.append(seq + ("slice_off",))
    seqs += sl
    if cfg.tier == "quick":
        core = [s for s in seqs if len(s) == 1]
        rest = [s for s in seqs if len(s) > 1]
        seqs = core + rotated(rest, 70, cfg.seed)
    else:
        # thorough: every sequence of length <= 2 and a seed-rotated 1000 of the ~4800 of length 3
        # (all of them would take hours at 4 rows per table; the seed walks through them)
        core = [s for s in seqs if len(s) <= 2]
        rest = [s for s in seqs if len(s) > 2]
        seqs = core + rotated(rest, 1000, cfg.seed)
    for seq in seqs:
        out.append(Template("c02.s." + "-".join(seq), T_I3, chain(*[STEPS[s] for s in seq]), props=("C02",)))
    from . import gen

    out += gen.templates_for("C02", cfg)  # compositions drawn from the typed pipeline grammar (pv/corpora/gen.py)
    return out
