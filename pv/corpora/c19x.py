"""extra templates for C19 (compile-only on every dialect): constructs whose SQL rendering
differs between dialects (OFFSET without ORDER BY, bool/bit, null ordering, casts, string ops)"""

from __future__ import annotations

from ..e1 import Template
from ..kernel import BOOL, INT, REAL, STR

S = [("t", {"a": INT, "b": INT, "p": BOOL, "s": STR, "f": REAL})]


def templates(cfg):
    out = []

    def T(name, prog):
        out.append(Template(f"c19x.{name}", S, prog, props=("C19",)))

    T("offset_no_order", lambda p, t: t >> p.slice_head(2, offset=1))
    T("offset_subquery_no_order", lambda p, t: t >> p.slice_head(2, offset=1) >> p.alias("z") >> p.filter(p.C.a > 0))
    T("offset_subquery_ordered", lambda p, t: t >> p.arrange(t.a.nulls_last()) >> p.slice_head(2, offset=1) >> p.alias("z") >> p.filter(p.C.a > 0))
    T("limit_subquery", lambda p, t: t >> p.slice_head(2) >> p.alias("z") >> p.summarize(n=p.count()))
    T("bool_select", lambda p, t: t >> p.mutate(q=t.p & (t.a > 1), r=~t.p, w=t.p | t.b.is_null()))
    T("bool_filter", lambda p, t: t >> p.filter(t.p) >> p.filter(~t.p | (t.a > 0)))
    T("bool_agg", lambda p, t: t >> p.group_by(t.a) >> p.summarize(x=t.p.any(), y=t.p.all(), z=t.p.sum(), m=t.p.max()))
    T("bool_case", lambda p, t: t >> p.mutate(c=p.when(t.p).then(t.p).otherwise(t.a > 0), d=p.when(t.a > 0).then(True).otherwise(None)))
    T("bool_window", lambda p, t: t >> p.mutate(x=t.p.any(partition_by=t.a), s=t.p.shift(1, arrange=[t.b.nulls_last()])))
    T("bool_join_on", lambda p, t: t >> p.inner_join(t >> p.alias("u"), t.p))
    T("null_order", lambda p, t: t >> p.arrange(t.a.nulls_last(), t.b.descending().nulls_first(), t.s) >> p.mutate(r=p.rank(arrange=[t.f.descending().nulls_last()])))
    T("casts", lambda p, t: t >> p.mutate(i=t.f.cast(p.Int64()), s2=t.a.cast(p.String()), f2=t.a.cast(p.Float64()), b2=t.p.cast(p.Int64()), n=t.s.cast(p.Int64())))
    T("casts_nonstrict", lambda p, t: t >> p.mutate(n=t.s.cast(p.Int64(), strict=False), i=t.f.cast(p.Int64(), strict=False)))
    T("strings", lambda p, t: t >> p.mutate(l=t.s.str.len(), u=t.s.str.upper(), st=t.s.str.starts_with("a%"), en=t.s.str.ends_with("_"), co=t.s.str.contains("x", allow_regex=False), re=t.s.str.replace_all("a", "b"), sl=t.s.str.slice(1, 2), tr=t.s.str.strip(), cat=t.s + "z"))
    T("numeric_fns", lambda p, t: t >> p.mutate(r=t.f.round(1), r2=t.f.round(-1), fl=t.f.floor(), ce=t.f.ceil(), ab=t.a.abs(), fd=t.a // t.b, md=t.a % t.b, td=t.a / t.b, pw=t.a**2))
    T("horizontal", lambda p, t: t >> p.mutate(mx=p.max(t.a, t.b, 0), mn=p.min(t.a, t.b), co=p.coalesce(t.a, t.b), cl=t.a.clip(0, 5), isin=t.a.is_in(1, 2, None)))
    T("windows", lambda p, t: t >> p.mutate(rn=p.row_number(arrange=[t.a.nulls_last()]), dr=p.dense_rank(arrange=[t.b]), sh=t.b.shift(-1, 0, arrange=[t.a]), cs=t.b.cum_sum(arrange=[t.a.descending()], partition_by=t.p)))
    T("float_literals", lambda p, t: t >> p.mutate(x=t.f + 1.5, y=t.f * -0.25, z=p.lit(2.0)))
    T("union_ops", lambda p, t: (t >> p.select(t.a, t.b)) >> p.union(t >> p.alias("u") >> p.select(p.C.b, p.C.a), distinct=True) >> p.arrange(p.C.a.nulls_last()))
    def self_join_alias(p, t):
        u = t >> p.alias("u")
        return t >> p.left_join(u, t.a == u.b, suffix="_u")

    T("self_join_alias", self_join_alias)
    return out
