"""extra templates for C19 (compile-only on every dialect): constructs whose SQL rendering
differs between dialects (OFFSET without ORDER BY, bool/bit, null ordering, casts, string ops)"""

from __future__ import annotations

from ..e1 import Template
from ..kernel import BOOL, INT, REAL, STR

import datetime as _dtm

from ..kernel import DATE, DT

S = [("t", {"a": INT, "b": INT, "p": BOOL, "s": STR, "f": REAL})]
S_TM = S + [("u", {"a": INT, "d": DATE, "t": DT})]
D0 = _dtm.date(2010, 1, 1)
T0 = _dtm.datetime(2010, 1, 1, 2, 3, 4)


def templates(cfg):
    out = []

    def T(name, prog, sources=S):
        out.append(Template(f"c19x.{name}", sources, prog, props=("C19",)))

    T("offset_no_order", lambda p, t: t >> p.slice_head(2, offset=1))
    T("offset_subquery_no_order", lambda p, t: t >> p.slice_head(2, offset=1) >> p.alias("z") >> p.filter(p.C.a > 0))
    T("offset_subquery_ordered", lambda p, t: t >> p.arrange(t.a.nulls_last()) >> p.slice_head(2, offset=1) >> p.alias("z") >> p.filter(p.C.a > 0))
    T("limit_subquery", lambda p, t: t >> p.slice_head(2) >> p.alias("z") >> p.summarize(n=p.count()))
    T("bool_select", lambda p, t: t >> p.mutate(q=t.p & (t.a > 1), r=~t.p, w=t.p | t.b.is_null()))
    T("bool_filter", lambda p, t: t >> p.filter(t.p) >> p.filter(~t.p | (t.a > 0)))
    T("bool_agg", lambda p, t: t >> p.group_by(t.a) >> p.summarize(x=t.p.any(), y=t.p.all(), z=t.p.sum(), m=t.p.max()))
    T("bool_case", lambda p, t: t >> p.mutate(c=p.when(t.p).then(t.p).otherwise(t.a > 0), d=p.when(t.a > 0).then(True).otherwise(None)))
    T("bool_window", lambda p, t: t >> p.mutate(x=t.p.any(partition_by=t.a), s=t.p.shift(1, arrange=[t.b.nulls_last()])))
    T("bool_join_on", lambda p, t: t >> p.inner_join(t >> p.alias("u"), t.p))
    T("null_order", lambda p, t: t >> p.arrange(t.a.nulls_last(), t.b.descending().nulls_first(), t.s) >> p.mutate(r=p.rank(arrange=[t.f.descending().nulls_last()])))
    T("casts", lambda p, t: t >> p.mutate(i=t.f.cast(p.Int64()), s2=t.a.cast(p.String()), f2=t.a.cast(p.Float64()), b2=t.p.cast(p.Int64()), n=t.s.cast(p.Int64())))
    T("casts_nonstrict", lambda p, t: t >> p.mutate(n=t.s.cast(p.Int64(), strict=False), i=t.f.cast(p.Int64(), strict=False)))
    T("casts_nonstrict_int", lambda p, t: t >> p.mutate(e=(t.a + 1).cast(p.Int8(), strict=False), l=p.lit(5).cast(p.Int8(), strict=False), c=t.a.cast(p.Int16(), strict=False), f=t.f.cast(p.Int32(), strict=False), b=(t.a > 0).cast(p.Int64(), strict=False)))
    T("strings", lambda p, t: t >> p.mutate(l=t.s.str.len(), u=t.s.str.upper(), st=t.s.str.starts_with("a%"), en=t.s.str.ends_with("_"), co=t.s.str.contains("x", allow_regex=False), re=t.s.str.replace_all("a", "b"), sl=t.s.str.slice(1, 2), tr=t.s.str.strip(), cat=t.s + "z"))
    T("numeric_fns", lambda p, t: t >> p.mutate(r=t.f.round(1), r2=t.f.round(-1), fl=t.f.floor(), ce=t.f.ceil(), ab=t.a.abs(), fd=t.a // t.b, md=t.a % t.b, td=t.a / t.b, pw=t.a**2))
    T("horizontal", lambda p, t: t >> p.mutate(mx=p.max(t.a, t.b, 0), mn=p.min(t.a, t.b), co=p.coalesce(t.a, t.b), cl=t.a.clip(0, 5), isin=t.a.is_in(1, 2, None)))
    T("windows", lambda p, t: t >> p.mutate(rn=p.row_number(arrange=[t.a.nulls_last()]), dr=p.dense_rank(arrange=[t.b]), sh=t.b.shift(-1, 0, arrange=[t.a]), cs=t.b.cum_sum(arrange=[t.a.descending()], partition_by=t.p)))
    T("nan_filter_not", lambda p, t: t >> p.filter(~t.f.is_nan()))
    T("nan_and", lambda p, t: t >> p.mutate(y=t.f.is_nan() & (t.a > 1), z=(t.a > 1) | t.f.is_not_nan()))
    T("nan_arrange", lambda p, t: t >> p.arrange(t.f.is_nan(), t.f.is_not_inf()))
    T("nan_when", lambda p, t: t >> p.mutate(y=p.when(~t.f.is_nan()).then(1).otherwise(2), z=t.f.is_inf() ^ t.p))
    T("nan_agg", lambda p, t: t >> p.group_by(t.a) >> p.summarize(x=t.f.is_nan().any(), y=t.f.is_not_inf().all()))
    T("nan_window", lambda p, t: t >> p.mutate(y=t.a.sum(partition_by=t.f.is_nan()), z=t.f.is_inf().shift(1, arrange=[t.a])))
    T("temporal_casts", lambda p, t, u: u >> p.mutate(x=u.d.cast(p.Datetime()), y=u.t.cast(p.Date()), s=u.d.cast(p.String()), w=u.t.cast(p.String()), e=u.d.cast(p.Datetime()) == u.t), S_TM)
    T("temporal_parts", lambda p, t, u: u >> p.mutate(y=u.d.dt.year(), m=u.t.dt.month(), d2=u.t.dt.day(), h=u.t.dt.hour(), mi=u.t.dt.minute(), s=u.t.dt.second(), w=u.d.dt.day_of_week(), j=u.t.dt.day_of_year()), S_TM)
    T("temporal_cmp", lambda p, t, u: u >> p.filter(u.d >= D0) >> p.mutate(m=p.min(u.d, D0), c=p.coalesce(u.t, T0)) >> p.arrange(u.d.nulls_last(), u.t.descending()), S_TM)
    T("temporal_agg", lambda p, t, u: u >> p.group_by(u.d) >> p.summarize(lo=u.t.min(), n=p.count()), S_TM)
    T("temporal_parse", lambda p, t, u: t >> p.mutate(x=t.s.str.to_date(), y=t.s.str.to_datetime()), S_TM)
    # typed null literals (F66: compile_lit called math.isnan(None)) and a table grouped again and ungrouped after summarize
    # (F67: assertion in the Ungroup branch of the SQL compiler); reported by a round-5 sub-agent
    T("typed_null_literals", lambda p, t: t >> p.mutate(x=p.lit(None, p.Float64()), y=p.lit(None, p.Float64()) + t.f, z=p.lit(None, p.Int64()), w=p.lit(None, p.String()), q=p.lit(None, p.Bool())))
    T("regroup_ungroup_after_summarize", lambda p, t: t >> p.group_by(t.a) >> p.summarize(m=t.b.sum()) >> p.group_by(p.C.a) >> p.ungroup() >> p.mutate(z=p.C.m + 1))
    # F74 (found by the generator with VERIF_SEED=1, gen.1.9): an aggregate / cum_sum over a horizontal min / max on PostgreSQL
    T("agg_over_horizontal", lambda p, t: t >> p.mutate(x=p.max(t.a, t.b).sum(), y=p.min(t.a, t.b).cum_sum(arrange=[t.a.nulls_last()])))
    T("float_literals", lambda p, t: t >> p.mutate(x=t.f + 1.5, y=t.f * -0.25, z=p.lit(2.0)))
    T("union_ops", lambda p, t: (t >> p.select(t.a, t.b)) >> p.union(t >> p.alias("u") >> p.select(p.C.b, p.C.a), distinct=True) >> p.arrange(p.C.a.nulls_last()))
    def self_join_alias(p, t):
        u = t >> p.alias("u")
        return t >> p.left_join(u, t.a == u.b, suffix="_u")

    T("self_join_alias", self_join_alias)
    from . import temporal

    out += temporal.templates_for("C19", cfg)
    return out
