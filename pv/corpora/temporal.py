"""Temporal templates (Date / Datetime columns), shared by several properties' corpora:
`templates_for(prop, cfg)` returns the slice tagged with that property.

Dates are days, datetimes microseconds since 1970-01-01 (kernel DATE / DT); symbolic values
range over 1960-01-01 .. 2099-12-31.  On SQLite temporal values are *text* and compare as
text (SEM_sqlite models the three text forms)."""

from __future__ import annotations

import datetime as dtm

from ..e1 import Template
from .. import kernel as K
from ..kernel import DATE, DT, DT_MS, DT_NS, INT, STR

S_T = [("t", {"a": INT, "d": DATE, "t": DT})]
S_D2 = [("t", {"a": INT, "d": DATE, "e": DATE})]
S_J = [("t", {"a": INT, "d": DATE}), ("u", {"b": INT, "e": DATE})]
D0 = dtm.date(2010, 1, 1)
D1 = dtm.date(2000, 2, 29)
T0 = dtm.datetime(2010, 1, 1, 2, 3, 4)
T1 = dtm.datetime(2000, 2, 29)
T2 = dtm.datetime(1999, 12, 31, 23, 59, 59, 999999)


def _rand_day(rng):
    return K.days_to_date(rng.choice([K.DAY_LO, -1, 0, 1, 59, 11016, 11017, 18266, K.DAY_HI]))


def _gen_dates(rng):
    rows = []
    for i in range(rng.randint(1, 3)):
        d, e = _rand_day(rng), _rand_day(rng)
        t = dtm.datetime.combine(_rand_day(rng), dtm.time(rng.choice([0, 23]), rng.choice([0, 59]), rng.choice([0, 59]), rng.choice([0, 5, 999999])))
        rows.append({"a": i, "d": rng.choice([d, None]), "e": e, "t": rng.choice([t, t, None])})
    return {"t": rows}


def _gen_date_text(rng):
    return {"t": [{"a": i, "s": rng.choice([_rand_day(rng).isoformat(), None])} for i in range(rng.randint(1, 3))]}


def _gen_dt_text(rng):
    forms = ["%Y-%m-%d %H:%M:%S", "%Y-%m-%d %H:%M:%S.%f", "%Y-%m-%dT%H:%M:%S"]
    rows = [{"a": 0, "s": T1.strftime(rng.choice(forms))}]  # the compared instant itself, in any form
    for i in range(rng.randint(0, 2)):
        t = dtm.datetime.combine(rng.choice([T1.date(), _rand_day(rng)]), dtm.time(rng.choice([0, 23]), 0, rng.choice([0, 59])))
        rows.append({"a": i + 1, "s": rng.choice([t.strftime(rng.choice(forms)), None])})
    return {"t": rows}


def _all(cfg):
    out = []

    def T(props, name, prog, sources=S_T, **kw):
        kw.setdefault("nmax", 2)
        for pr in props:
            k2 = dict(kw)
            if pr == "C01":
                k2["mode"] = "cross"  # C01 compares the two backends with each other
            out.append(Template(f"c{pr[1:]}.tm.{name}", sources, prog, props=(pr,), **k2))

    # --- C17: the documented conversions
    T(["C17", "C12"], "dt_to_date", lambda p, t: t >> p.mutate(y=t.t.cast(p.Date())))
    T(["C17", "C12"], "date_to_dt", lambda p, t: t >> p.mutate(y=t.d.cast(p.Datetime())))
    T(["C17"], "date_to_dt_eq", lambda p, t: t >> p.mutate(y=t.d.cast(p.Datetime()) == t.t))
    T(["C17"], "date_to_dt_le", lambda p, t: t >> p.mutate(y=t.d.cast(p.Datetime()) <= t.t, z=t.d.cast(p.Datetime()) > t.t))
    T(["C17"], "date_to_dt_filter", lambda p, t: t >> p.filter(t.d.cast(p.Datetime()) >= t.t))
    T(["C17"], "date_to_dt_eq_lit", lambda p, t: t >> p.mutate(y=t.d.cast(p.Datetime()) == T1))
    T(["C17"], "dt_to_date_eq", lambda p, t: t >> p.mutate(y=t.t.cast(p.Date()) == t.d))
    T(["C17"], "dt_date_roundtrip", lambda p, t: t >> p.mutate(y=t.t.cast(p.Date()).cast(p.Datetime()) <= t.t))
    T(["C17"], "date_dt_roundtrip", lambda p, t: t >> p.mutate(y=t.d.cast(p.Datetime()).cast(p.Date()) == t.d))
    T(["C17"], "date_to_str", lambda p, t: t >> p.mutate(y=t.d.cast(p.String())))
    T(["C17"], "dt_to_str", lambda p, t: t >> p.mutate(y=t.t.cast(p.String())))
    T(["C17"], "date_dt_to_str", lambda p, t: t >> p.mutate(y=t.d.cast(p.Datetime()).cast(p.String())))
    T(["C17"], "dt_date_to_str", lambda p, t: t >> p.mutate(y=t.t.cast(p.Date()).cast(p.String())))
    T(["C17"], "date_to_dt_min", lambda p, t: t >> p.mutate(y=p.min(t.d.cast(p.Datetime()), t.t)))
    T(["C17"], "date_to_dt_when", lambda p, t: t >> p.mutate(y=p.when(t.a > 0).then(t.t).otherwise(t.d.cast(p.Datetime()))))
    T(["C17"], "date_to_dt_coalesce", lambda p, t: t >> p.mutate(y=p.coalesce(t.t, t.d.cast(p.Datetime()))))
    T(["C17"], "date_to_dt_agg", lambda p, t: t >> p.summarize(y=t.d.cast(p.Datetime()).max(), z=t.t.cast(p.Date()).min()))
    T(["C17"], "date_to_dt_arrange", lambda p, t: t >> p.arrange(t.d.cast(p.Datetime()).nulls_last(), t.a.nulls_last()))
    T(["C17", "C12"], "identity_casts", lambda p, t: t >> p.mutate(y=t.d.cast(p.Date()), z=t.t.cast(p.Datetime()), w=t.d.cast(p.Date()) == t.d))
    T(["C17"], "null_to_date", lambda p, t: t >> p.mutate(y=p.lit(None).cast(p.Date()), z=t.d.cast(p.Datetime()).is_null()))
    # frames whose datetime column has millisecond / nanosecond unit (arrow / parquet / pandas data)
    for unit, ty in (("ms", DT_MS), ("ns", DT_NS)):
        SU = [("t", {"a": INT, "t": ty, "d": DATE})]
        T(["C17"], f"{unit}_to_str", lambda p, t: t >> p.mutate(y=t.t.cast(p.String())), SU, nmax=1)
        T(["C17", "C12"], f"{unit}_to_date", lambda p, t: t >> p.mutate(y=t.t.cast(p.Date()), z=t.t.cast(p.Date()).cast(p.String())), SU)
        T(["C17"], f"{unit}_cmp", lambda p, t: t >> p.mutate(x=t.t == T1, y=t.d.cast(p.Datetime()) <= t.t, m=p.max(t.t, T0)), SU)
        T(["C03"], f"{unit}_parts", lambda p, t: t >> p.mutate(h=t.t.dt.hour(), s=t.t.dt.second(), y=t.t.dt.year()), SU, nmax=1)
    # constant sources (literal / column made from a python scalar): same table as for columns
    T(["C17", "C19"], "lit_dt_to_date", lambda p, t: t >> p.mutate(y=p.lit(T0).cast(p.Date()), z=p.lit(D0).cast(p.Datetime())))
    T(["C17"], "lit_to_str", lambda p, t: t >> p.mutate(y=p.lit(T0).cast(p.String()), z=p.lit(D1).cast(p.String()), w=p.lit(T2).cast(p.Date()).cast(p.String())))
    T(["C17"], "scalar_col_to_date", lambda p, t: t >> p.mutate(ts=T2, dd=D1) >> p.mutate(y=p.C.ts.cast(p.Date()), z=p.C.dd.cast(p.Datetime()) <= t.t))
    T(["C17"], "lit_dt_to_date_cmp", lambda p, t: t >> p.filter(p.lit(T1).cast(p.Date()) == t.d))
    T(["C17", "C01"], "str_lit_to_date", lambda p, t: t >> p.mutate(y=p.lit("2020-01-05").str.to_date(), z=p.lit("2000-02-29").str.to_date() == t.d))
    T(["C17", "C19"], "str_lit_to_datetime", lambda p, t: t >> p.mutate(z=p.lit("1999-12-31 23:59:59").str.to_datetime()))
    # outside every interpreter: decided by a concrete differential only (e1.cross_concrete)
    T(["C01"], "date_minus_date", lambda p, t: t >> p.mutate(y=t.d - t.e), S_D2, concrete_gen=_gen_dates)
    T(["C01"], "dt_minus_dt", lambda p, t: t >> p.mutate(y=t.t - T0), concrete_gen=_gen_dates)
    T(["C01"], "str_col_to_date", lambda p, t: t >> p.mutate(y=t.s.str.to_date()), [("t", {"a": INT, "s": STR})], concrete_gen=_gen_date_text)
    T(["C01"], "str_col_to_datetime", lambda p, t: t >> p.mutate(y=t.s.str.to_datetime() >= T1), [("t", {"a": INT, "s": STR})], concrete_gen=_gen_dt_text)
    # --- C03: comparisons / null-aware functions on temporal operands
    T(["C03"], "date_cmp_lit", lambda p, t: t >> p.mutate(x=t.d < D0, y=t.d == D1, z=t.d >= D1))
    T(["C03"], "dt_cmp_lit", lambda p, t: t >> p.mutate(x=t.t < T0, y=t.t == T1, z=t.t > T2))
    T(["C03"], "date_cmp_col", lambda p, t: t >> p.mutate(x=t.d < t.e, y=t.d == t.e, z=t.d != t.e), S_D2)
    T(["C03"], "date_min_max", lambda p, t: t >> p.mutate(x=p.min(t.d, t.e), y=p.max(t.d, D0), z=p.coalesce(t.d, t.e, D1)), S_D2)
    T(["C03"], "date_when", lambda p, t: t >> p.mutate(x=p.when(t.d < D0).then(t.d).otherwise(D0), y=p.when(t.a > 0).then(t.t)))
    T(["C03"], "date_fill_isin", lambda p, t: t >> p.mutate(x=t.d.fill_null(D0), y=t.d.is_in(D0, D1), z=t.d.is_null()))
    T(["C03"], "date_filter", lambda p, t: t >> p.filter(t.d >= D1) >> p.filter(t.t < T0))
    T(["C03"], "dt_parts", lambda p, t: t >> p.mutate(y=t.t.dt.year(), m=t.t.dt.month(), d2=t.t.dt.day()))
    T(["C03"], "dt_time_parts", lambda p, t: t >> p.mutate(h=t.t.dt.hour(), mi=t.t.dt.minute(), s=t.t.dt.second()))
    T(["C03"], "date_parts", lambda p, t: t >> p.mutate(y=t.d.dt.year(), m=t.d.dt.month(), d2=t.d.dt.day()))
    T(["C03"], "date_dow_doy", lambda p, t: t >> p.mutate(w=t.d.dt.day_of_week(), j=t.d.dt.day_of_year()))
    T(["C03"], "dt_dow", lambda p, t: t >> p.mutate(w=t.t.dt.day_of_week()), nmax=1)
    T(["C03"], "dt_doy", lambda p, t: t >> p.mutate(j=t.t.dt.day_of_year()), nmax=1)
    T(["C03"], "parts_of_cast", lambda p, t: t >> p.mutate(h=t.d.cast(p.Datetime()).dt.hour(), y=t.t.cast(p.Date()).dt.year()))
    # --- C04 / C05 / C06 / C07 : verbs over temporal columns
    T(["C04"], "date_min_max_agg", lambda p, t: t >> p.group_by(t.a) >> p.summarize(lo=t.d.min(), hi=t.t.max(), n=t.d.count()))
    T(["C04"], "date_group_key", lambda p, t: t >> p.group_by(t.d) >> p.summarize(n=p.count(), s=t.a.sum()))
    T(["C04"], "dt_to_date_group_key", lambda p, t: t >> p.mutate(k=t.t.cast(p.Date())) >> p.group_by(p.C.k) >> p.summarize(n=p.count()))
    T(["C05"], "arrange_date", lambda p, t: t >> p.arrange(t.d.nulls_last(), t.t.descending().nulls_first(), t.a.nulls_last()))
    T(["C05"], "shift_date", lambda p, t: t >> p.mutate(y=t.d.shift(1, arrange=[t.a.nulls_last(), t.d.nulls_last(), t.t.nulls_last()])))
    T(["C05"], "rank_by_date", lambda p, t: t >> p.mutate(r=p.rank(arrange=[t.d.nulls_last()])))
    T(["C06"], "join_on_date", lambda p, t, u: t >> p.inner_join(u, t.d == u.e), S_J)
    T(["C06"], "left_join_on_date_lt", lambda p, t, u: t >> p.left_join(u, (t.d == u.e) & (t.a <= u.b)), S_J)
    T(["C07"], "union_dates", lambda p, t, u: (t >> p.select(t.a, t.d)) >> p.union(u >> p.rename({"b": "a", "e": "d"}), distinct=True), S_J)
    # --- C12: types of temporal expressions
    T(["C12"], "types_mix", lambda p, t: t >> p.mutate(x=t.d.cast(p.Datetime()), y=t.t.cast(p.Date()), z=t.d < D0, w=t.t.dt.year(), s=t.d.cast(p.String()), m=p.min(t.d, D0), c=p.coalesce(t.t, T0)))
    T(["C12"], "types_agg", lambda p, t: t >> p.summarize(x=t.d.min(), y=t.t.max(), n=t.d.count()))
    T(["C12"], "types_lit", lambda p, t: t >> p.mutate(x=p.lit(D0), y=p.lit(T0), z=p.when(t.a > 0).then(D0)))
    return out


S_S = [("t", {"s": STR, "a": INT})]


def templates_for(prop, cfg):
    return [t for t in _all(cfg) if prop in t.props]
