"""C06: joins vs REF - row combinations, naming, reachability of all columns."""

from __future__ import annotations

from ..e1 import Template
from ..kernel import BOOL, INT

TU = [("t", {"a": INT, "b": INT}), ("u", {"a": INT, "x": INT})]
TU3 = [("t", {"a": INT, "b": INT, "c": INT}), ("u", {"a": INT, "b": INT, "x": INT})]
TU_DISJ = [("t", {"a": INT, "b": INT}), ("u", {"k": INT, "x": INT})]


def templates(cfg):
    out = []

    def T(name, prog, sources=TU, **kw):
        out.append(Template(f"c06.{name}", sources, prog, props=("C06",), **kw))

    hows = ["inner", "left", "full"]
    for how in hows:
        T(f"{how}.eq", lambda p, t, u, how=how: t >> p.join(u, t.a == u.a, how))
        T(f"{how}.eq_str_on", lambda p, t, u, how=how: t >> p.join(u, "a", how))
        T(f"{how}.eq2", lambda p, t, u, how=how: t >> p.join(u, (t.a == u.a) & (t.b == u.x), how))
        T(f"{how}.eq_list", lambda p, t, u, how=how: t >> p.join(u, [t.a == u.a, t.b == u.x], how))
        T(f"{how}.eq_swapped", lambda p, t, u, how=how: t >> p.join(u, u.a == t.a, how))
        T(f"{how}.eq_expr", lambda p, t, u, how=how: t >> p.join(u, t.a + 1 == u.a, how))
        T(f"{how}.filter_left", lambda p, t, u, how=how: t >> p.filter(t.b > 0) >> p.join(u, t.a == u.a, how) if how != "full" else t >> p.join(u, t.a == u.a, how))
        T(f"{how}.mutate_right", lambda p, t, u, how=how: t >> p.join(u >> p.mutate(y=u.x * 2), t.a == u.a, how))
        T(f"{how}.select_right", lambda p, t, u, how=how: t >> p.join(u >> p.select(u.a), t.a == u.a, how) >> p.mutate(z=u.x))
        T(f"{how}.rename_both", lambda p, t, u, how=how: t >> p.rename({"b": "x"}) >> p.join(u >> p.rename({"x": "b"}), t.a == u.a, how))
        T(f"{how}.suffix", lambda p, t, u, how=how: t >> p.join(u, t.a == u.a, how, suffix="_r"))
        T(f"{how}.disjoint_names", lambda p, t, u, how=how: t >> p.join(u, t.a == u.k, how), TU_DISJ)
        T(f"{how}.probe_all_cols", lambda p, t, u, how=how: t >> p.join(u, t.a == u.a, how) >> p.mutate(p1=t.a, p2=t.b, p3=u.a, p4=u.x))
        T(f"{how}.then_filter", lambda p, t, u, how=how: t >> p.join(u, t.a == u.a, how) >> p.filter(u.x.is_null() | (t.b > u.x)))
    for how in ("inner", "left"):
        T(f"{how}.lt", lambda p, t, u, how=how: t >> p.join(u, t.a < u.a, how))
        T(f"{how}.eq_and_lt", lambda p, t, u, how=how: t >> p.join(u, (t.a == u.a) & (t.b <= u.x), how))
        T(f"{how}.filter_right", lambda p, t, u, how=how: t >> p.join(u >> p.filter(u.x > 0), t.a == u.a, how))
        T(f"{how}.filter_right_null", lambda p, t, u, how=how: t >> p.join(u >> p.filter(u.x.is_null()), t.a == u.a, how))
        T(f"{how}.filter_both", lambda p, t, u, how=how: t >> p.filter(t.b != 1) >> p.join(u >> p.filter(u.x != 2), t.a == u.a, how))
        T(f"{how}.right_alias_filter", lambda p, t, u, how=how: t >> p.join(u >> p.filter(u.x > 0) >> p.alias("w"), p.C.b == p.C.x, how))
    # constant columns on either side: on SQL the constant must not be inlined above an outer join
    T("const.left_join_right_const_alias", lambda p, t, u: t >> p.left_join(u >> p.mutate(k=1) >> p.alias("w"), t.a == p.C.x))
    T("const.left_join_right_const", lambda p, t, u: t >> p.left_join(u >> p.mutate(k=1), t.a == u.a))
    T("const.left_join_left_const", lambda p, t, u: t >> p.mutate(k=1) >> p.left_join(u, t.a == u.a))
    T("const.inner_join_right_const", lambda p, t, u: t >> p.inner_join(u >> p.mutate(k=1), t.a == u.a))
    T("const.full_join_right_const_alias", lambda p, t, u: t >> p.full_join(u >> p.mutate(k=7) >> p.alias("w"), t.a == p.C.x))
    T("const.full_join_left_const", lambda p, t, u: t >> p.mutate(k=7) >> p.full_join(u, t.a == u.a))
    T("const.left_join_right_const_expr", lambda p, t, u: t >> p.left_join(u >> p.mutate(k=p.lit(2) + 3), t.a == u.a) >> p.mutate(z=p.C.k + 1))
    T("cross", lambda p, t, u: t >> p.cross_join(u))
    T("cross_disjoint", lambda p, t, u: t >> p.cross_join(u), TU_DISJ)
    T("cross_then_filter", lambda p, t, u: t >> p.cross_join(u) >> p.filter(t.a == u.a))
    T("cross_suffix", lambda p, t, u: t >> p.cross_join(u, suffix="_2"))
    # naming: collisions beyond the join columns, hidden columns on both sides
    T("names.collide_nonjoin", lambda p, t, u: t >> p.inner_join(u, t.a == u.a), TU3)
    T("names.collide_hidden_right", lambda p, t, u: t >> p.inner_join(u >> p.drop(u.b), t.a == u.a) >> p.mutate(z=u.b), TU3)
    T("names.collide_hidden_left", lambda p, t, u: t >> p.drop(t.b) >> p.left_join(u, t.a == u.a) >> p.mutate(z=t.b), TU3)
    T("names.hidden_both", lambda p, t, u: t >> p.drop(t.b) >> p.left_join(u >> p.drop(u.b), t.a == u.a) >> p.mutate(z1=t.b, z2=u.b), TU3)
    T("names.overwritten_right", lambda p, t, u: t >> p.inner_join(u >> p.mutate(x=u.x + 1), t.a == u.a) >> p.mutate(old=u.x))
    T("names.suffixed_exists_left", lambda p, t, u: t >> p.rename({"b": "a_u"}) >> p.inner_join(u, t.a == u.a))
    T("names.join_then_select_right", lambda p, t, u: t >> p.left_join(u, t.a == u.a) >> p.select(u.x, t.b, u.a))
    T("names.numeric_suffix_needed", lambda p, t, u: t >> p.rename({"c": "x_u"}) >> p.inner_join(u, t.a == u.a), TU3)
    T("names.numeric_suffix_nonclashing", lambda p, t, u: t >> p.rename({"c": "x_u"}) >> p.left_join(u, (t.a == u.a) & (t.b == u.b)), TU3)
    T("names.suffix_chain", lambda p, t, u: t >> p.rename({"b": "a_u", "c": "a_u_1"}) >> p.inner_join(u >> p.select(u.a), t.a == u.a), TU3)
    # the numeric suffix has to be valid for ALL right columns at once; renaming only the join columns must not collide
    # with another right column (F64; reported by two round-5 sub-agents)
    T("names.numeric_suffix_revalidated", lambda p, t, u: t >> p.mutate(a_u=t.c, b_u_1=t.c + 1, a_u_2=t.c + 2) >> p.inner_join(u, t.a == u.a), TU3)
    T("names.numeric_suffix_revalidated_left", lambda p, t, u: t >> p.mutate(x_u=t.c, a_u_1=t.c + 1, b_u_1=t.b, x_u_2=t.a) >> p.left_join(u, t.a == u.a) >> p.mutate(z=u.x), TU3)
    T("names.partial_rename_collides_right", lambda p, t, u: t >> p.select(t.a, t.c) >> p.inner_join(u >> p.rename({"x": "a_u"}), t.a == u.a) >> p.mutate(z=u.x), TU3)
    T("names.only_join_cols_clash", lambda p, t, u: t >> p.select(t.a, t.c) >> p.left_join(u >> p.select(u.a, u.x), t.a == u.a), TU3)
    # joins after other verbs / of derived tables
    T("left.mutated_key", lambda p, t, u: t >> p.mutate(k=t.a * 2) >> p.left_join(u, p.C.k == u.a), tags=("nonlinear",))
    def summarized_right(p, t, u):
        w = u >> p.group_by(u.a) >> p.summarize(s=u.x.sum()) >> p.alias("w")
        return t >> p.inner_join(w, t.a == w.a)

    T("inner.summarized_right", summarized_right)

    def sliced_right(p, t, u):
        w = u >> p.arrange(u.x.nulls_last(), u.a.nulls_last()) >> p.slice_head(1) >> p.alias("w")
        return t >> p.left_join(w, t.a == w.a)

    T("left.sliced_right", sliced_right)
    T("inner.then_summarize", lambda p, t, u: t >> p.inner_join(u, t.a == u.a) >> p.group_by(t.a) >> p.summarize(s=u.x.sum(), n=p.count()))
    T("left.then_window", lambda p, t, u: t >> p.left_join(u, t.a == u.a) >> p.mutate(r=u.x.sum(partition_by=t.a)))
    TUV = [("t", {"a": INT, "b": INT}), ("u", {"k": INT, "x": INT}), ("v", {"m": INT, "y": INT})]
    T("three.inner_then_full", lambda p, t, u, v: t >> p.inner_join(u >> p.filter(u.x > 0), t.a == u.k) >> p.full_join(v, t.b == v.m), TUV, nmax=2)
    T("three.left_then_inner", lambda p, t, u, v: t >> p.left_join(u, t.a == u.k) >> p.inner_join(v, u.x == v.m), TUV, nmax=2)
    T("three.inner_then_left_filtered", lambda p, t, u, v: t >> p.inner_join(u, t.a == u.k) >> p.left_join(v >> p.filter(v.y > 0), t.b == v.m), TUV, nmax=2)
    T("three.filter_then_full", lambda p, t, u, v: t >> p.filter(t.a > 0) >> p.alias("f") >> p.full_join(u, p.C.a == u.k), TUV, nmax=2)

    def self_join(p, t, u):
        s = t >> p.alias("s")
        return t >> p.inner_join(s, t.a == s.b)

    T("self_join", self_join, TU_DISJ)

    def self_join_derived(p, t, u):
        d = t >> p.mutate(c=t.a + t.b) >> p.filter(t.b > 0)
        s = d >> p.alias("s")
        return d >> p.left_join(s, d.c == s.a) >> p.mutate(z=s.c)

    T("self_join_derived", self_join_derived, TU_DISJ)
    from . import temporal

    out += temporal.templates_for("C06", cfg)
    from . import gen

    out += gen.templates_for("C06", cfg)  # compositions drawn from the typed pipeline grammar (pv/corpora/gen.py)
    return out
