"""C09: column references denote columns, not names.  Each template ends with probe
columns built from references taken earlier; z3 shows the probe equals the originally
referenced data (REF resolves references by origin) on both backends for all data.
`derived[ref].name` is compared as an extra (names have no value quantifier)."""

from __future__ import annotations

from ..e1 import Template
from ..kernel import INT

S = [("t", {"a": INT, "b": INT, "c": INT})]
TU = [("t", {"a": INT, "b": INT}), ("u", {"a": INT, "x": INT})]


def templates(cfg):
    out = []

    def T(name, prog, sources=S, **kw):
        out.append(Template(f"c09.{name}", sources, prog, props=("C09",), **kw))

    T("rename", lambda p, t: t >> p.rename({"a": "z"}) >> p.mutate(p1=t.a, p2=p.C.z))

    def swap(p, t):
        d = t >> p.rename({"a": "b", "b": "a"})
        r = d >> p.mutate(p1=t.a, p2=p.C.a, p3=t.b, p4=p.C.b)
        return r, [p.colname(d[t.a]), p.colname(d[t.b])]

    T("swap", swap)

    def rename_onto_hidden(p, t):
        d = t >> p.drop(t.a) >> p.rename({"b": "a"})
        return d >> p.mutate(p1=t.a, p2=p.C.a, p3=t.b), [p.colname(d[t.b])]

    T("rename_onto_hidden", rename_onto_hidden)
    T("select_then_hidden_ref", lambda p, t: t >> p.select(t.b) >> p.mutate(p1=t.a + t.c))
    T("drop_then_hidden_ref_filter", lambda p, t: t >> p.drop(t.a, t.c) >> p.filter(t.a > 0) >> p.mutate(p1=t.c))
    T("overwrite", lambda p, t: t >> p.mutate(a=t.a + 1) >> p.mutate(p1=t.a, p2=p.C.a))

    def overwrite_recreate(p, t):
        d = t >> p.mutate(a=t.b * 2) >> p.rename({"a": "x"}) >> p.mutate(a=t.c - 1)
        return d >> p.mutate(p1=t.a, p2=p.C.a, p3=p.C.x), [p.colname(d[t.b])]

    T("overwrite_recreate", overwrite_recreate)

    def intermediate(p, t):
        m = t >> p.mutate(d=t.a + 1)
        n = m >> p.mutate(d=m.d * 2)
        return n >> p.mutate(p1=m.d, p2=n.d, p3=p.C.d)

    T("intermediate_refs", intermediate)

    def intermediate2(p, t):
        m = t >> p.rename({"a": "k"})
        n = m >> p.mutate(a=m.k + t.b) >> p.drop(m.k)
        return n >> p.mutate(p1=m.k, p2=n.a, p3=t.a)

    T("intermediate_rename_drop", intermediate2)
    T("arrange_filter", lambda p, t: t >> p.arrange(t.b.nulls_last(), t.a.nulls_last(), t.c.nulls_last()) >> p.filter(t.a > 0) >> p.rename({"a": "b", "b": "a"}) >> p.mutate(p1=t.a))
    T("arrange_by_old_ref", lambda p, t: t >> p.rename({"a": "b", "b": "a"}) >> p.arrange(t.a.nulls_last(), t.b.nulls_last(), t.c.nulls_last()) >> p.slice_head(2))
    T("filter_by_old_ref", lambda p, t: t >> p.mutate(a=t.b) >> p.filter(t.a > 0))
    T("group_by_old_ref", lambda p, t: t >> p.rename({"a": "b", "b": "a"}) >> p.group_by(t.a) >> p.summarize(s=t.b.sum()))
    T("keep_col_refs", lambda p, t: t >> p.mutate(d=t.a + 1) >> p.rename({"b": "y"}) >> p.alias("z", keep_col_refs=True) >> p.mutate(p1=t.a, p2=t.b, p3=p.C.d))

    def alias_new_refs(p, t):
        z = t >> p.mutate(d=t.a + 1) >> p.rename({"b": "y"}) >> p.alias("z")
        return z >> p.mutate(p1=z.a, p2=z.y, p3=z.d)

    T("alias_new_refs", alias_new_refs)

    def join_suffix(p, t, u):
        j = t >> p.left_join(u, t.a == u.a)
        return j >> p.mutate(p1=u.a, p2=t.a, p3=u.x), [p.colname(j[u.a]), p.colname(j[t.a]), p.colname(j[u.x])]

    T("join_suffix", join_suffix, TU)

    def join_renamed(p, t, u):
        u2 = u >> p.rename({"a": "b", "x": "a"})
        j = t >> p.inner_join(u2, t.a == u.a)
        return j >> p.mutate(p1=u.a, p2=u.x, p3=t.b), [p.colname(j[u.a]), p.colname(j[u.x])]

    T("join_renamed_right", join_renamed, TU)

    def join_hidden(p, t, u):
        j = t >> p.drop(t.b) >> p.left_join(u >> p.drop(u.x), t.a == u.a)
        return j >> p.mutate(p1=t.b, p2=u.x)

    T("join_hidden_both", join_hidden, TU)

    def rename_then_select_old_refs(p, t):
        d = t >> p.rename({"a": "b", "b": "a"}) >> p.select(t.c, t.a, t.b)
        return d >> p.mutate(p1=p.C.a, p2=t.a, p3=p.C.b), [p.colname(d[t.a]), p.colname(d[t.b]), p.colname(d[t.c])]

    T("rename_then_select_old_refs", rename_then_select_old_refs)

    def rename_select_drop(p, t):
        d = t >> p.rename({"a": "z"}) >> p.select(t.b, t.a) >> p.drop(t.b)
        return d >> p.mutate(p1=p.C.z, p2=t.a), [p.colname(d[t.a])]

    T("rename_select_drop", rename_select_drop)

    def join_suffix_then_select(p, t, u):
        j = t >> p.inner_join(u, t.a == u.a) >> p.select(u.a, t.a, u.x)
        return j >> p.mutate(p1=p.C.a_u, p2=u.a), [p.colname(j[u.a]), p.colname(j[t.a])]

    T("join_suffix_then_select", join_suffix_then_select, TU)

    TU3 = [("t", {"a": INT, "b": INT, "c": INT}), ("u", {"a": INT, "b": INT, "c": INT})]

    def join_hidden_same_name(p, t, u):
        j = t >> p.drop(t.b) >> p.inner_join(u >> p.drop(u.b), t.a == u.a)
        return j >> p.mutate(p1=t.b, p2=u.b, p3=u.c)

    T("join_hidden_same_name", join_hidden_same_name, TU3)

    def join_overwritten_same_name(p, t, u):
        j = t >> p.mutate(b=t.b + 1) >> p.left_join(u >> p.mutate(b=u.b * 2), t.a == u.a)
        return j >> p.mutate(p1=t.b, p2=u.b, p3=p.C.b, p4=p.C.b_u)

    T("join_overwritten_same_name", join_overwritten_same_name, TU3)

    def reuse_case_after_swap(p, t):
        e = p.when(p.C.a > 0).then(p.C.b).otherwise(p.C.c)
        first = t >> p.mutate(v=e)
        _ = first
        return t >> p.rename({"a": "b", "b": "a"}) >> p.mutate(v=e, w=p.C.a.cast(p.Float64()) if False else p.C.a + 0)

    T("reuse_case_after_swap", reuse_case_after_swap)

    def reuse_cast_on_derived(p, t):
        e = p.C.a.cast(p.Float64()) + 1
        d = t >> p.mutate(x=e)
        return d >> p.mutate(a=t.b) >> p.mutate(y=e)

    T("reuse_cast_on_derived", reuse_cast_on_derived)

    def join_then_rename(p, t, u):
        j = t >> p.inner_join(u, t.a == u.a) >> p.rename({"a": "x", "x": "a"})
        return j >> p.mutate(p1=t.a, p2=u.x, p3=p.C.a, p4=p.C.x)

    T("join_then_rename_swap", join_then_rename, TU)
    out += case_templates()
    return out


# rejection clauses: (name, sources, builder) - the builder must raise the documented exception
def case_templates():
    """names that differ only in case are different columns (SQL engines compare names
    case-insensitively, so they must be kept apart inside generated subqueries)"""
    S3 = [("t", {"a": INT, "b": INT, "g": INT})]
    base = lambda p, t: t >> p.rename({"a": "B"}) >> p.mutate(b=p.C.B * 2 + t.b) >> p.arrange(p.C.b.descending().nulls_last(), p.C.B.nulls_last(), t.g.nulls_last()) >> p.slice_head(2) >> p.alias("s")  # noqa: E731
    out = []
    out.append(Template("c09.case.subquery_summarize", S3, lambda p, t: base(p, t) >> p.summarize(x=p.C.B.sum(), y=p.C.b.sum()), props=("C09",), nmax=3))
    out.append(Template("c09.case.subquery_filter", S3, lambda p, t: base(p, t) >> p.filter(p.C.b > p.C.B), props=("C09",), nmax=3))
    out.append(Template("c09.case.subquery_window", S3, lambda p, t: base(p, t) >> p.mutate(w=p.C.b.max(partition_by=p.C.g) - p.C.B), props=("C09",), nmax=3))
    out.append(Template("c09.case.no_subquery", S3, lambda p, t: t >> p.rename({"a": "B"}) >> p.mutate(b=p.C.B + 1) >> p.filter(p.C.b > 1) >> p.select(p.C.b, p.C.B), props=("C09",), nmax=3))
    out.append(Template("c09.case.group_key", S3, lambda p, t: t >> p.rename({"g": "K"}) >> p.mutate(k=t.a) >> p.group_by(p.C.K) >> p.summarize(k=p.C.k.sum()) >> p.alias("z") >> p.filter(p.C.k > p.C.K), props=("C09",), nmax=3))
    # the label that keeps a hidden column apart from its visible namesake inside a subquery must
    # not collide with a real column (a, a_1)
    S4 = [("t", {"a": INT, "a_1": INT, "g": INT})]
    out.append(Template("c09.case.suffix_collides_with_column", S4, lambda p, t: t >> p.mutate(a=t.a + 100) >> p.arrange(t.g.nulls_last(), t.a.nulls_last(), t.a_1.nulls_last()) >> p.slice_head(2) >> p.alias(keep_col_refs=True) >> p.filter(t.a > 3) >> p.mutate(z=p.C.a_1 + t.a), props=("C09",), nmax=3))
    return out


def rejections():
    R = []
    R.append(("after_summarize", S, lambda p, t: t >> p.group_by(t.a) >> p.summarize(s=t.b.sum()) >> p.mutate(z=t.b), "ColumnNotFoundError"))
    R.append(("after_alias", S, lambda p, t: t >> p.alias("z") >> p.mutate(z=t.a), "ColumnNotFoundError"))
    R.append(("after_alias_filter", S, lambda p, t: t >> p.mutate(d=t.a) >> p.alias("z") >> p.filter(t.a > 0), "ColumnNotFoundError"))
    R.append(("unrelated_table", TU, lambda p, t, u: t >> p.mutate(z=u.x), "ColumnNotFoundError"))
    R.append(("unrelated_in_arrange", TU, lambda p, t, u: t >> p.arrange(u.x), "ColumnNotFoundError"))
    R.append(("unrelated_in_on", [("t", {"a": INT, "b": INT}), ("u", {"a": INT, "x": INT}), ("v", {"k": INT})], lambda p, t, u, v: t >> p.inner_join(u, t.a == v.k), "ValueError"))
    R.append(("on_col_dropped_by_summarize", TU, lambda p, t, u: t >> p.group_by(t.a) >> p.summarize(s=t.b.sum()) >> p.inner_join(u, t.b == u.x), "ValueError"))
    R.append(("on_col_cut_by_alias", TU, lambda p, t, u: t >> p.alias("z") >> p.inner_join(u, t.a == u.a), "ValueError"))
    R.append(("after_union_hidden", [("t", {"a": INT, "b": INT}), ("u", {"b": INT, "a": INT})], lambda p, t, u: (t >> p.select(t.a)) >> p.union(u >> p.select(u.a)) >> p.mutate(z=t.b), "ColumnNotFoundError"))
    R.append(("select_hidden_again", S, lambda p, t: t >> p.drop(t.a) >> p.select(t.a), "ColumnNotFoundError"))
    R.append(("unknown_name", S, lambda p, t: t >> p.mutate(z=p.C.nope), "ColumnNotFoundError"))
    return R
