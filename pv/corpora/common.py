"""building blocks for the template corpora"""

from __future__ import annotations

import itertools
import random

from ..e1 import Template
from ..kernel import BOOL, INT, REAL, STR

T_IB = [("t", {"a": INT, "b": INT, "p": BOOL})]
T_I3 = [("t", {"a": INT, "b": INT, "c": INT})]
T_IBS = [("t", {"a": INT, "b": INT, "p": BOOL, "s": STR})]
T_IF = [("t", {"a": INT, "f": REAL, "g": REAL})]
T_S = [("t", {"s": STR, "r": STR, "a": INT})]
TU = [("t", {"a": INT, "b": INT, "p": BOOL}), ("u", {"a": INT, "x": INT})]
TU_SAME = [("t", {"a": INT, "b": INT}), ("u", {"b": INT, "a": INT})]


def chain(*steps):
    """compose verb steps: each step is f(p, tbl, src...) -> tbl"""

    def prog(p, *src):
        t = src[0]
        for s in steps:
            t = s(p, t, *src)
        return t

    return prog


def pick(items, k, rng: random.Random, always=()):
    """deterministic sub-selection: `always` + k random others"""
    items = list(items)
    rest = [x for x in items if x not in always]
    rng.shuffle(rest)
    return list(always) + rest[: max(0, k - len(always))]


def rotated(items, k, seed):
    """fixed-size slice of a list that rotates with the seed"""
    items = list(items)
    if len(items) <= k:
        return items
    start = (seed * k) % len(items)
    return [items[(start + i) % len(items)] for i in range(k)]
