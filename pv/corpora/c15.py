"""C15: documented equivalences - both sides are compiled by the real code and z3 shows
SEM(side A) == SEM(side B) per backend for all data (artefact vs artefact; REF only
supplies DEF), plus side A vs REF."""

from __future__ import annotations

import itertools

from ..e1 import Template
from ..kernel import BOOL, INT

S = [("t", {"a": INT, "b": INT, "g": INT})]
SB = [("t", {"a": INT, "b": INT, "p": BOOL})]
TU = [("t", {"a": INT, "b": INT}), ("u", {"k": INT, "x": INT})]
TU_SAME = [("t", {"a": INT, "b": INT}), ("u", {"b": INT, "a": INT})]


def templates(cfg):
    out = []

    def T(name, A, B, sources=S, **kw):
        out.append(Template(f"c15.{name}", sources, A, prog2=B, props=("C15",), **kw))

    # 1. several independent arguments vs one call per argument
    T(
        "mutate_split",
        lambda p, t: t >> p.mutate(x=t.a + 1, y=t.b * 2, z=t.a - t.b),
        lambda p, t: t >> p.mutate(x=t.a + 1) >> p.mutate(y=t.b * 2) >> p.mutate(z=t.a - t.b),
    )
    T(
        "mutate_split_overwrite",
        lambda p, t: t >> p.mutate(a=t.b, y=t.a + 1),
        lambda p, t: t >> p.mutate(a=t.b) >> p.mutate(y=t.a + 1),
    )
    T(
        "mutate_split_window",
        lambda p, t: t >> p.mutate(s=t.b.sum(partition_by=t.g), m=t.b.max()),
        lambda p, t: t >> p.mutate(s=t.b.sum(partition_by=t.g)) >> p.mutate(m=t.b.max()),
    )
    # partition_by= vs group_by around an aggregate that is nested in an expression, after a slice
    T(
        "nested_window_after_slice",
        lambda p, t: t >> p.arrange(t.a.nulls_last(), t.b.nulls_last(), t.g.nulls_last()) >> p.slice_head(2) >> p.alias("z") >> p.mutate(d=p.C.b - p.C.b.max(partition_by=p.C.g)),
        lambda p, t: t >> p.arrange(t.a.nulls_last(), t.b.nulls_last(), t.g.nulls_last()) >> p.slice_head(2) >> p.alias("z") >> p.group_by(p.C.g) >> p.mutate(d=p.C.b - p.C.b.max()) >> p.ungroup(),
    )
    T(
        "filter_split",
        lambda p, t: t >> p.filter(t.a > 0, t.b < 3, t.g != 1),
        lambda p, t: t >> p.filter(t.a > 0) >> p.filter(t.b < 3) >> p.filter(t.g != 1),
    )
    T(
        "filter_split_vs_and",
        lambda p, t: t >> p.filter(t.a > 0, t.b < 3),
        lambda p, t: t >> p.filter((t.a > 0) & (t.b < 3)),
    )
    T(
        "filter_split_grouped_summarize",
        lambda p, t: t >> p.group_by(t.g) >> p.summarize(s=t.b.sum(), n=p.count()) >> p.filter(p.C.s > 0, p.C.n > 1),
        lambda p, t: t
        >> p.group_by(t.g)
        >> p.summarize(s=t.b.sum(), n=p.count())
        >> p.filter(p.C.s > 0)
        >> p.filter(p.C.n > 1),
    )
    # 2. grouping state + table order vs explicit partition_by / arrange  (up to row order)
    wins = {
        "shift": lambda p, t, kw: t.b.shift(1, **kw),
        "row_number": lambda p, t, kw: p.row_number(**kw),
        "cum_sum": lambda p, t, kw: t.b.cum_sum(**kw),
        "rank": lambda p, t, kw: p.rank(**kw) if kw.get("arrange") else None,
        "sum": lambda p, t, kw: t.b.sum(**{k: v for k, v in kw.items() if k != "arrange"}),
    }
    for wn, w in wins.items():
        if wn == "rank":
            continue
        if wn != "cum_sum":  # cum_sum requires an explicit arrange=
            T(
                f"grouped_arranged.{wn}",
                lambda p, t, w=w: t
                >> p.group_by(t.g)
                >> p.arrange(t.a.nulls_last(), t.b.nulls_last())
                >> p.mutate(y=w(p, t, {}))
                >> p.ungroup(),
                lambda p, t, w=w: t
                >> p.mutate(y=w(p, t, {"partition_by": t.g, "arrange": [t.a.nulls_last(), t.b.nulls_last()]})),
                seq=False,
            )
        T(
            f"grouped_explicit_arrange.{wn}",
            lambda p, t, w=w: t
            >> p.group_by(t.g)
            >> p.mutate(y=w(p, t, {"arrange": [t.a.descending().nulls_first(), t.b.nulls_last()]}))
            >> p.ungroup(),
            lambda p, t, w=w: t
            >> p.mutate(
                y=w(p, t, {"partition_by": t.g, "arrange": [t.a.descending().nulls_first(), t.b.nulls_last()]})
            ),
        )
    T(
        "grouped_explicit_arrange.rank",
        lambda p, t: t
        >> p.group_by(t.g, t.a)
        >> p.mutate(y=p.rank(arrange=[t.b.descending().nulls_last()]))
        >> p.ungroup(),
        lambda p, t: t >> p.mutate(y=p.rank(partition_by=[t.g, t.a], arrange=[t.b.descending().nulls_last()])),
    )
    # 3. drop vs select of the complement
    T("drop_vs_select", lambda p, t: t >> p.drop(t.b), lambda p, t: t >> p.select(t.a, t.g))
    T(
        "drop_two_vs_select",
        lambda p, t: t >> p.mutate(d=t.a + 1) >> p.drop(t.a, p.C.d),
        lambda p, t: t >> p.mutate(d=t.a + 1) >> p.select(t.b, t.g),
    )
    T(
        "drop_after_rename",
        lambda p, t: t >> p.rename({"a": "z"}) >> p.drop(t.a),
        lambda p, t: t >> p.rename({"a": "z"}) >> p.select(t.b, t.g),
    )
    # 4. rename followed by its inverse
    T(
        "rename_inverse",
        lambda p, t: t >> p.rename({"a": "x", "b": "y"}) >> p.rename({"x": "a", "y": "b"}),
        lambda p, t: t >> p.select(t.a, t.b, t.g),
    )
    T(
        "rename_swap_twice",
        lambda p, t: t >> p.rename({"a": "b", "b": "a"}) >> p.rename({"a": "b", "b": "a"}) >> p.mutate(z=p.C.a - p.C.b),
        lambda p, t: t >> p.mutate(z=p.C.a - p.C.b),
    )
    # 5. chain of slice_head vs the single combined slice (concrete grid; all integers: K1)
    ar = lambda p, t: t >> p.arrange(t.a.nulls_last(), t.b.nulls_last(), t.g.nulls_last())  # noqa: E731
    grid = [
        (2, 0, 1, 1),
        (3, 1, 2, 1),
        (1, 0, 2, 2),
        (2, 1, 2, 0),
        (3, 0, 1, 2),
        (1, 1, 1, 1),
        (0, 0, 2, 0),
        (2, 0, 0, 1),
    ]
    if cfg.tier != "quick":
        grid = list(itertools.product((0, 1, 2, 3), (0, 1, 2), (0, 1, 2, 3), (0, 1, 2)))
    for n1, o1, n2, o2 in grid:
        n = max(min(n1 - o2, n2), 0)
        T(
            f"slice_chain.{n1}_{o1}_{n2}_{o2}",
            lambda p, t, n1=n1, o1=o1, n2=n2, o2=o2: ar(p, t)
            >> p.slice_head(n1, offset=o1)
            >> p.slice_head(n2, offset=o2),
            lambda p, t, n=n, o=o1 + o2: ar(p, t) >> p.slice_head(n, offset=o),
        )
    # 6. inner_join vs cross_join + filter
    T(
        "inner_vs_cross_filter",
        lambda p, t, u: t >> p.inner_join(u, t.a == u.k),
        lambda p, t, u: t >> p.cross_join(u) >> p.filter(t.a == u.k),
        TU,
    )
    T(
        "inner_vs_cross_filter2",
        lambda p, t, u: t >> p.inner_join(u, (t.a == u.k) & (t.b < u.x)),
        lambda p, t, u: t >> p.cross_join(u) >> p.filter(t.a == u.k, t.b < u.x),
        TU,
    )
    T(
        "inner_lt_vs_cross_filter",
        lambda p, t, u: t >> p.inner_join(u, t.a < u.k),
        lambda p, t, u: t >> p.cross_join(u) >> p.filter(t.a < u.k),
        TU,
    )
    # 7. map vs when/then chain
    T(
        "map_vs_when",
        lambda p, t: t >> p.mutate(y=t.a.map({1: 10, 2: 20})),
        lambda p, t: t >> p.mutate(y=p.when(t.a.is_in(1)).then(10).when(t.a.is_in(2)).then(20).otherwise(t.a)),
    )
    T(
        "map_default_vs_when",
        lambda p, t: t >> p.mutate(y=t.a.map({(0, 3): t.b, 1: 7}, default=-1)),
        lambda p, t: t >> p.mutate(y=p.when(t.a.is_in(0, 3)).then(t.b).when(t.a.is_in(1)).then(7).otherwise(-1)),
    )
    # 8. is_in vs disjunction of equalities
    T(
        "is_in_vs_or",
        lambda p, t: t >> p.mutate(y=t.a.is_in(1, 2)),
        lambda p, t: t >> p.mutate(y=(t.a == 1) | (t.a == 2)),
    )
    T(
        "is_in_null_vs_or",
        lambda p, t: t >> p.mutate(y=t.a.is_in(1, None)),
        lambda p, t: t >> p.mutate(y=(t.a == 1) | (t.a == None)),
    )  # noqa: E711
    T(
        "is_in_col_vs_or",
        lambda p, t: t >> p.mutate(y=t.a.is_in(t.b, t.g, 0)),
        lambda p, t: t >> p.mutate(y=(t.a == t.b) | (t.a == t.g) | (t.a == 0)),
    )
    T(
        "not_is_in_filter",
        lambda p, t: t >> p.filter(~t.a.is_in(t.b, 1)),
        lambda p, t: t >> p.filter(~((t.a == t.b) | (t.a == 1))),
    )
    T(
        "clip_vs_minmax",
        lambda p, t: t >> p.mutate(y=t.a.clip(0, 2)),
        lambda p, t: t >> p.mutate(y=p.when(t.a.is_null()).then(None).otherwise(p.max(p.min(t.a, 2), 0))),
    )
    # 9. union with swapped operands up to column order
    for d in (False, True):
        T(
            f"union_swapped.{'distinct' if d else 'all'}",
            lambda p, t, u, d=d: t >> p.union(u, distinct=d) >> p.select(p.C.a, p.C.b),
            lambda p, t, u, d=d: u >> p.union(t, distinct=d) >> p.select(p.C.a, p.C.b),
            TU_SAME,
            nmax=2,
        )
    return out
