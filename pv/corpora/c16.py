"""C16: alias / collect / transfer_col_references re-root a table without changing data.
equiv templates: SEM(P >> re-root) == SEM(P) per backend for all data; plus pipelines
that use old / new references after the re-rooting verb and self-joins, vs REF."""

from __future__ import annotations

from ..e1 import Template
from ..kernel import INT

S = [("t", {"a": INT, "b": INT, "g": INT})]
TU = [("t", {"a": INT, "b": INT, "g": INT}), ("u", {"a": INT, "x": INT})]

BASES = {
    "plain": lambda p, t: t,
    "hidden": lambda p, t: t >> p.select(t.g, t.a),
    "renamed": lambda p, t: t >> p.rename({"a": "b", "b": "a"}),
    "mutated": lambda p, t: t >> p.mutate(a=t.a + t.b, d=t.g * 2),
    "filtered": lambda p, t: t >> p.filter(t.a > 0) >> p.mutate(d=t.b),
    "arranged": lambda p, t: t >> p.arrange(t.a.nulls_last(), t.b.nulls_last(), t.g.nulls_last()),
    "grouped": lambda p, t: t >> p.group_by(t.g),
    "windowed": lambda p, t: t >> p.mutate(s=t.b.sum(partition_by=t.g)),
    "summarized": lambda p, t: t >> p.group_by(t.g) >> p.summarize(s=t.b.sum(), n=p.count()),
}


def templates(cfg):
    out = []

    def T(name, A, B=None, sources=S, **kw):
        out.append(Template(f"c16.{name}", sources, A, prog2=B, props=("C16",), **kw))

    fin = lambda p, x: (x >> p.ungroup()) if True else x  # noqa: E731
    for bn, base in BASES.items():
        seq = bn != "arranged" or True
        P = lambda p, t, base=base: fin(p, base(p, t))  # noqa: E731
        T(f"alias.{bn}", lambda p, t, base=base: fin(p, base(p, t) >> p.alias("z")), P)
        T(f"alias_keep.{bn}", lambda p, t, base=base: fin(p, base(p, t) >> p.alias("z", keep_col_refs=True)), P)
        T(f"alias_twice.{bn}", lambda p, t, base=base: fin(p, base(p, t) >> p.alias() >> p.alias("y")), P)
        T(f"collect.{bn}", lambda p, t, base=base: fin(p, p.collect(base(p, t))), P)
        T(f"collect_norefs.{bn}", lambda p, t, base=base: fin(p, p.collect(base(p, t), keep_col_refs=False)), P)

        def transfer(p, t, base=base):
            d = base(p, t)
            n = d >> p.alias("m")
            return fin(p, p.transfer_col_references(n, d))

        T(f"transfer.{bn}", transfer, P)
    # references after the re-rooting verb
    def new_refs_after_alias(p, t):
        z = t >> p.mutate(d=t.a + 1) >> p.rename({"b": "y"}) >> p.alias("z")
        return z >> p.mutate(q=z.d + z.y) >> p.filter(z.a > 0)

    T("refs.new_after_alias", new_refs_after_alias)
    T("refs.old_after_alias_keep", lambda p, t: t >> p.mutate(d=t.a + 1) >> p.rename({"b": "y"}) >> p.alias("z", keep_col_refs=True) >> p.mutate(q=t.b + t.a) >> p.filter(t.g > 0))

    def old_refs_after_collect(p, t):
        d = t >> p.mutate(d=t.a + 1) >> p.rename({"b": "y"})
        c = p.collect(d)
        return c >> p.mutate(q=t.b + d.d, r=c.y) >> p.filter(t.a > 0)

    T("refs.old_after_collect", old_refs_after_collect)

    def collect_then_verbs(p, t):
        c = p.collect(t >> p.filter(t.a > 0) >> p.mutate(d=t.a * 2))
        return c >> p.group_by(t.g) >> p.summarize(s=c.d.sum(), n=p.count())

    T("collect_then_summarize", collect_then_verbs, tags=("nonlinear",))

    def grouping_survives_collect(p, t):
        c = p.collect(t >> p.group_by(t.g))
        return c >> p.mutate(y=t.b.sum()) >> p.ungroup()

    T("grouping_survives_collect", grouping_survives_collect)
    def grouping_survives_collect_summarize(p, t):
        c = p.collect(t >> p.filter(t.a.is_not_null()) >> p.group_by(t.g))
        return c >> p.summarize(s=t.b.sum(), n=p.count())

    T("grouping_survives_collect_summarize", grouping_survives_collect_summarize)

    def grouping_survives_collect_add(p, t):
        c = p.collect(t >> p.group_by(t.g))
        return c >> p.group_by(t.a, add=True) >> p.summarize(n=p.count())

    T("grouping_survives_collect_add", grouping_survives_collect_add)
    T("grouping_survives_alias", lambda p, t: t >> p.group_by(t.g) >> p.alias("z") >> p.mutate(y=p.C.b.sum()) >> p.ungroup())
    T("grouping_survives_alias_summarize", lambda p, t: t >> p.group_by(t.g) >> p.alias("z") >> p.summarize(s=p.C.b.sum()))
    # the ORDER of several grouping columns (not the table's column order) through re-rooting: summarize lists the keys in
    # group_by order, and the metadata must say the same (round 5, C16-F)
    T("grouping_order_survives_alias_summarize", lambda p, t: t >> p.group_by(t.g, t.a) >> p.alias("z") >> p.summarize(s=p.C.b.sum()))
    T("grouping_order_survives_alias_twice_drop", lambda p, t: t >> p.group_by(t.g, t.b) >> p.alias("y") >> p.alias("z") >> p.summarize(s=p.C.a.max()) >> p.drop(p.C.s))
    T("grouping_order_survives_alias_window", lambda p, t: t >> p.group_by(t.g, t.a) >> p.alias("z") >> p.mutate(y=p.C.b.sum()) >> p.summarize(m=p.C.y.max()))

    def grouping_order_survives_transfer(p, t):
        d = t >> p.mutate(d=t.a + 1) >> p.group_by(t.g, t.a)
        n = d >> p.alias("m")
        return p.transfer_col_references(n, d) >> p.summarize(s=t.b.sum())

    T("grouping_order_survives_transfer", grouping_order_survives_transfer)

    def grouping_order_survives_collect(p, t):
        return p.collect(t >> p.group_by(t.g, t.a)) >> p.summarize(s=t.b.sum())

    T("grouping_order_survives_collect", grouping_order_survives_collect)

    def transfer_reordered(p, t):
        d = t >> p.mutate(d=t.a + t.b)
        n = d >> p.select(d.d, t.g, t.a, t.b) >> p.alias("m")
        r = p.transfer_col_references(n, d)
        return r >> p.mutate(q1=t.a, q2=d.d, q3=t.g)

    T("transfer_reordered", transfer_reordered)

    def transfer_subset(p, t):
        d = t >> p.mutate(d=t.a - t.b)
        n = d >> p.select(t.b, d.d) >> p.alias("m")
        r = p.transfer_col_references(n, d)
        return r >> p.mutate(q1=t.b, q2=d.d)

    T("transfer_subset", transfer_subset)

    def transfer_after_collect(p, t):
        d = t >> p.filter(t.a > 0) >> p.rename({"a": "k"})
        n = p.collect(d, keep_col_refs=False)
        r = p.transfer_col_references(n, d)
        return r >> p.mutate(q=t.a + t.b)

    T("transfer_after_collect", transfer_after_collect)
    # self-joins of derived tables
    for how in ("inner", "left", "full"):

        def self_join(p, t, how=how):
            d = t >> p.mutate(d=t.a + 1) >> p.select(t.a, p.C.d)
            s = d >> p.alias("s")
            return d >> p.join(s, d.a == s.d, how) >> p.mutate(q=s.a)

        T(f"self_join.{how}", self_join)

    # old references through alias(keep_col_refs=True) when the alias really becomes a SQL subquery and
    # a hidden column shares its name with a visible one
    def keep_refs_hidden_namesake(p, t):
        d = t >> p.mutate(a=t.a + 1) >> p.arrange(t.b.nulls_last(), t.g.nulls_last(), t.a.nulls_last()) >> p.slice_head(2) >> p.alias("z", keep_col_refs=True)
        return d >> p.filter(t.a > 0) >> p.mutate(w=t.a, v=p.C.a)

    T("keep_refs.hidden_namesake_subquery", keep_refs_hidden_namesake, nmax=3)

    def keep_refs_hidden_namesake_agg(p, t):
        d = t >> p.mutate(b=t.b * 2) >> p.arrange(t.a.nulls_last(), t.g.nulls_last(), t.b.nulls_last()) >> p.slice_head(2) >> p.alias("z", keep_col_refs=True)
        return d >> p.summarize(old=t.b.sum(), new=p.C.b.sum())

    T("keep_refs.hidden_namesake_subquery_agg", keep_refs_hidden_namesake_agg, nmax=3)
    # the alias' own references to columns that are hidden on BOTH sides of the self-join
    for how in ("inner", "left"):

        def self_join_hidden_both(p, t, how=how):
            s = t >> p.alias("s")
            return t >> p.select(t.a) >> p.join(s >> p.select(s.a), t.b == s.b + 1, how) >> p.mutate(w_origin=t.g, w_alias=s.g)

        T(f"self_join.hidden_both.{how}", self_join_hidden_both, nmax=2)

    def self_join_hidden_overwritten(p, t):
        d = t >> p.mutate(b=t.b * 2)  # the old `b` is hidden on both sides
        s = d >> p.alias("s")
        return d >> p.left_join(s, d.a == s.g) >> p.mutate(x=d.b + 0, y=s.b + 0) >> p.filter(s.a.is_null() | (s.b >= d.b) | (s.b < d.b))

    T("self_join.hidden_overwritten", self_join_hidden_overwritten, nmax=2)

    def self_join_dropped_then_used(p, t):
        s = t >> p.drop(t.g) >> p.alias("s")
        return t >> p.drop(t.g) >> p.inner_join(s, t.a <= s.a) >> p.arrange(t.g.nulls_last(), s.b.nulls_last(), t.b.nulls_last(), s.a.nulls_last(), t.a.nulls_last())

    T("self_join.dropped_then_used", self_join_dropped_then_used, nmax=2)

    def self_join_filtered(p, t):
        d = t >> p.filter(t.b > 0)
        s = d >> p.alias("s")
        return d >> p.inner_join(s, d.g == s.g) >> p.filter(d.a < s.a)

    T("self_join.filtered_lt", self_join_filtered)

    def triple_self_join(p, t):
        s1 = t >> p.alias("s1")
        s2 = t >> p.alias("s2")
        return t >> p.inner_join(s1, t.a == s1.b) >> p.inner_join(s2, s1.a == s2.b) >> p.select(t.a, s1.a, s2.a)

    T("self_join.triple", triple_self_join, nmax=2)

    def self_join_of_join(p, t, u=None):
        j = t >> p.inner_join(u, t.a == u.a)
        s = j >> p.alias("s")
        return j >> p.left_join(s, j.x == s.b) >> p.select(t.a, u.x, s.x)

    T("self_join.of_join", self_join_of_join, sources=TU, nmax=2)
    return out


def rejections():
    """re-rooting a table that is grouped by a column it no longer shows: hidden columns do not survive collect() /
    transfer_col_references(), so the grouping cannot be carried over - ValueError when built, not an internal KeyError (F65)"""
    S = [("t", {"a": INT, "b": INT, "g": INT})]
    R = []
    R.append(("collect_hidden_key", S, lambda p, t: p.collect(t >> p.group_by(t.g) >> p.select(t.a, t.b)), "ValueError"))
    R.append(("collect_overwritten_key", S, lambda p, t: p.collect(t >> p.group_by(t.g) >> p.mutate(g=t.a + 1)), "ValueError"))

    def transfer_hidden_key(p, t):
        d = t >> p.group_by(t.g) >> p.select(t.a, t.b)
        return p.transfer_col_references(d >> p.alias("m"), d)

    R.append(("transfer_hidden_key", S, transfer_hidden_key, "ValueError"))
    return R
