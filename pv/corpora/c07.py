"""C07: union vs REF (alignment by name, multiplicities, distinct, hidden columns)."""

from __future__ import annotations

from ..e1 import Template
from ..kernel import BOOL, INT, REAL

TU = [("t", {"a": INT, "b": INT}), ("u", {"b": INT, "a": INT})]
TU3 = [("t", {"a": INT, "b": INT, "c": INT}), ("u", {"c": INT, "a": INT, "b": INT})]
TUB = [("t", {"a": INT, "p": BOOL}), ("u", {"p": BOOL, "a": INT})]
TUF = [("t", {"a": INT, "b": INT}), ("u", {"a": REAL, "b": INT})]


def templates(cfg):
    out = []

    def T(name, prog, sources=TU, **kw):
        kw.setdefault("nmax", 2)
        kw.setdefault("nmax2", 2)
        out.append(Template(f"c07.{name}", sources, prog, props=("C07",), **kw))

    for d in (False, True):
        dn = "distinct" if d else "all"
        T(f"{dn}.permuted", lambda p, t, u, d=d: t >> p.union(u, distinct=d))
        T(f"{dn}.permuted3", lambda p, t, u, d=d: t >> p.union(u, distinct=d), TU3)
        T(f"{dn}.bool_col", lambda p, t, u, d=d: t >> p.union(u, distinct=d), TUB)
        T(f"{dn}.swapped", lambda p, t, u, d=d: u >> p.union(t, distinct=d))
        T(f"{dn}.hidden_left", lambda p, t, u, d=d: t >> p.select(t.a) >> p.union(u >> p.select(u.a), distinct=d))
        T(f"{dn}.hidden_right_only", lambda p, t, u, d=d: t >> p.select(t.a, t.b) >> p.union(u >> p.mutate(z=u.a + 1) >> p.drop(p.C.z), distinct=d))
        T(f"{dn}.overwritten_right", lambda p, t, u, d=d: t >> p.union(u >> p.mutate(a=u.a * 10), distinct=d))
        T(f"{dn}.overwritten_left", lambda p, t, u, d=d: t >> p.mutate(b=t.a - t.b) >> p.union(u, distinct=d))
        T(f"{dn}.renamed_right", lambda p, t, u, d=d: t >> p.union(u >> p.rename({"a": "b", "b": "a"}), distinct=d))
        T(f"{dn}.rename_onto_hidden", lambda p, t, u, d=d: t >> p.union(u >> p.drop(u.a) >> p.mutate(a=u.b + 1), distinct=d))
        T(f"{dn}.filter_before", lambda p, t, u, d=d: t >> p.filter(t.a > 0) >> p.union(u >> p.filter(u.b.is_not_null()), distinct=d))
        T(f"{dn}.mutate_after", lambda p, t, u, d=d: t >> p.union(u, distinct=d) >> p.mutate(s=p.C.a + p.C.b))
        T(f"{dn}.filter_after", lambda p, t, u, d=d: t >> p.union(u, distinct=d) >> p.filter(p.C.a > 0))
        T(f"{dn}.summarize_after", lambda p, t, u, d=d: t >> p.union(u, distinct=d) >> p.group_by(p.C.a) >> p.summarize(n=p.count(), s=p.C.b.sum()))
        T(f"{dn}.count_after", lambda p, t, u, d=d: t >> p.union(u, distinct=d) >> p.summarize(n=p.count()))
        T(f"{dn}.select_after", lambda p, t, u, d=d: t >> p.union(u, distinct=d) >> p.select(p.C.b))
        T(f"{dn}.arrange_after", lambda p, t, u, d=d: t >> p.union(u, distinct=d) >> p.arrange(p.C.a.nulls_last(), p.C.b.nulls_last()))
        T(f"{dn}.chained", lambda p, t, u, d=d: t >> p.union(u, distinct=d) >> p.union(u >> p.alias("u2"), distinct=d))
        T(f"{dn}.chained_mixed", lambda p, t, u, d=d: t >> p.union(u, distinct=d) >> p.union(t >> p.alias("t2") >> p.filter(p.C.a > 0), distinct=not d))
        T(f"{dn}.self_via_alias", lambda p, t, u, d=d: t >> p.union(t >> p.alias("t2"), distinct=d))
        T(f"{dn}.const_col", lambda p, t, u, d=d: t >> p.mutate(k=1) >> p.union(u >> p.mutate(k=2), distinct=d))
        T(f"{dn}.int_float", lambda p, t, u, d=d: t >> p.union(u, distinct=d), TUF)
        T(f"{dn}.null_col", lambda p, t, u, d=d: t >> p.mutate(b=None) >> p.union(u, distinct=d))
    ar = lambda p, t: t >> p.arrange(t.a.nulls_last(), t.b.nulls_last())  # noqa: E731
    # an operand that is a real SQL subquery, then a projection AFTER the union: rows are compared as wholes, the
    # projection must not reach below the union (F60: the subquery was pruned to the finally selected columns)
    for d in (False, True):
        dn = "distinct" if d else "all"
        T(f"{dn}.subquery_left_select_after", lambda p, t, u, d=d: ar(p, t) >> p.slice_head(2) >> p.alias("z") >> p.union(u, distinct=d) >> p.select(p.C.a))
        T(f"{dn}.subquery_right_select_after", lambda p, t, u, d=d: t >> p.union(u >> p.arrange(u.a.nulls_last(), u.b.nulls_last()) >> p.slice_head(2) >> p.alias("z"), distinct=d) >> p.select(p.C.b))
        T(f"{dn}.subquery_both_summarize_after", lambda p, t, u, d=d: t >> p.mutate(w=t.a.max()) >> p.alias("y") >> p.filter(p.C.w > 0) >> p.drop(p.C.w) >> p.union(u >> p.mutate(w=u.b.min()) >> p.alias("z") >> p.filter(p.C.w < 1) >> p.drop(p.C.w), distinct=d) >> p.group_by(p.C.a) >> p.summarize(n=p.count()))
    for d in (False, True):
        dn = "distinct" if d else "all"
        T(f"{dn}.arrange_before_left", lambda p, t, u, d=d: ar(p, t) >> p.union(u, distinct=d))
        T(f"{dn}.arrange_before_right", lambda p, t, u, d=d: t >> p.union(u >> p.arrange(u.a.nulls_last()), distinct=d))
        T(f"{dn}.right_sliced_alias", lambda p, t, u, d=d: t >> p.union(u >> p.arrange(u.a.nulls_last(), u.b.nulls_last()) >> p.slice_head(1) >> p.alias("w"), distinct=d))
        T(f"{dn}.left_sliced_alias_select", lambda p, t, u, d=d: ar(p, t) >> p.slice_head(2) >> p.alias("w") >> p.union(u, distinct=d) >> p.select(p.C.a))
        T(f"{dn}.self_then_verb", lambda p, t, u, d=d: t >> p.union(t >> p.alias("t2"), distinct=d) >> p.mutate(z=p.C.a + 1) >> p.filter(p.C.b.is_not_null()))
        T(f"{dn}.const_then_group", lambda p, t, u, d=d: t >> p.mutate(k=1) >> p.union(u >> p.mutate(k=2), distinct=d) >> p.group_by(p.C.k) >> p.summarize(n=p.count()))
        T(f"{dn}.hidden_then_mutate_same_name", lambda p, t, u, d=d: t >> p.select(t.a) >> p.union(u >> p.select(u.a), distinct=d) >> p.mutate(b=p.C.a + 1))
        T(f"{dn}.hidden_then_rename_to_hidden_name", lambda p, t, u, d=d: t >> p.select(t.a) >> p.union(u >> p.select(u.a), distinct=d) >> p.rename({"a": "b"}) >> p.mutate(a=p.C.b * 2))
        T(f"{dn}.hidden_then_rename", lambda p, t, u, d=d: t >> p.mutate(b=t.a + 1) >> p.union(u, distinct=d) >> p.rename({"b": "z"}) >> p.mutate(b=p.C.z))
        T(f"{dn}.hidden_then_join", lambda p, t, u, d=d: t >> p.mutate(b=t.a + 1) >> p.union(u, distinct=d) >> p.alias("x") >> p.inner_join(u >> p.alias("y") , p.C.a == p.C.a) if False else t >> p.mutate(b=t.a + 1) >> p.union(u, distinct=d) >> p.mutate(b=p.C.b * 2, c=p.C.a))
    from . import temporal

    out += temporal.templates_for("C07", cfg)
    from . import gen

    out += gen.templates_for("C07", cfg)  # compositions drawn from the typed pipeline grammar (pv/corpora/gen.py)
    return out


def rejections():
    """union of tables whose *visible* column names differ is refused when the verb is applied
    (hidden columns of either operand do not count)"""
    R = []
    R.append(("right_subset", TU, lambda p, t, u: t >> p.union(u >> p.select(u.a)), "ValueError"))
    R.append(("right_subset_dropped", TU, lambda p, t, u: t >> p.union(u >> p.drop(u.b)), "ValueError"))
    R.append(("left_subset", TU, lambda p, t, u: t >> p.select(t.a) >> p.union(u), "ValueError"))
    R.append(("disjoint_renamed", TU, lambda p, t, u: t >> p.union(u >> p.rename({"a": "z"})), "ValueError"))
    R.append(("right_extra", TU, lambda p, t, u: t >> p.union(u >> p.mutate(z=u.a + 1)), "ValueError"))
    R.append(("right_subset_distinct", TU, lambda p, t, u: t >> p.union(u >> p.select(u.b), distinct=True), "ValueError"))
    R.append(("right_subset_3", TU3, lambda p, t, u: t >> p.union(u >> p.select(u.a, u.c)), "ValueError"))
    R.append(("grouped_left", TU, lambda p, t, u: t >> p.group_by(t.a) >> p.union(u), ("ValueError", "TypeError")))
    return R
