"""SEM_polars: symbolic semantics of a serialised Polars logical plan (DSL JSON, Polars
1.44) over the bounded relational kernel.  The plan is produced by the repository's
Polars backend (`export(Polars(lazy=True))` -> `LazyFrame.serialize(format="json")`).

Engine facts encoded here are validated continuously against the real engine
(pv/validate.py) - see DESIGN.md 6.3 and Appendix A."""

from __future__ import annotations

import re

import z3

from . import kernel as K
from . import strings as S
from .kernel import BOOL, DATE, DT, INT, NULLT, REAL, STR, Cell, Ctx, Rel, SortKey, Unsupported


class ArtefactError(Exception):
    """the compiled plan is ill-formed: the engine rejects it for every input"""


class StructVec:
    """column of structs: list of field columns"""

    def __init__(self, fields):
        self.fields = fields


_POLARS_TY = {
    "Int64": INT,
    "Int32": INT,
    "Int16": INT,
    "Int8": INT,
    "UInt32": INT,
    "UInt64": INT,
    "UInt8": INT,
    "UInt16": INT,
    "Boolean": BOOL,
    "String": STR,
    "Float64": REAL,
    "Float32": REAL,
    "Null": NULLT,
    "Date": DATE,
}


class PolarsSem:
    def __init__(self, scans, *, str_len=4, collected=(), sql_tables=None):
        """scans: list of (df_key(tuple of ints), Rel); collected: frames produced by
        collect() during the build: (df_key, ('plan', json) | ('sql', text), names)"""
        self.scans = scans
        self.collected = list(collected)
        self.sql_tables = sql_tables or {}
        self.side = []  # side constraints (fresh tie-breakers distinct, ...)
        self.notes = []  # unspecified-order notes
        self.str_len = str_len
        self.constructs = set()

    # ------------------------------------------------------------------ plans
    def plan(self, node) -> Rel:
        if not isinstance(node, dict) or len(node) != 1:
            raise Unsupported(f"plan node {str(node)[:80]}")
        (kind, body), = node.items()
        self.constructs.add(f"plan:{kind}")
        fn = getattr(self, f"p_{kind}", None)
        if fn is None:
            raise Unsupported(f"plan node {kind}")
        return fn(body)

    def p_DataFrameScan(self, b):
        key = tuple(b["df"])
        for k, rel in self.scans:
            if k == key:
                rel = rel.copy()
                # physical time unit of Datetime columns, as the frame handed to the library has it
                for col, dt in ((b.get("schema") or {}).get("fields") or {}).items():
                    if isinstance(dt, dict) and "Datetime" in dt and col in rel.data:
                        unit = dt["Datetime"][0]
                        tag = {"Microseconds": DT, "Milliseconds": K.DT_MS, "Nanoseconds": K.DT_NS}.get(unit)
                        if tag is None or dt["Datetime"][1] is not None:
                            raise Unsupported(f"datetime column {col}: {dt}")
                        if tag != DT:
                            self.constructs.add(f"scan:{tag}")
                            rel.data[col] = [Cell(tag, c.null, c.val) for c in rel.data[col]]
                return rel
        for k, stage, names in self.collected:
            if k == key:
                # a frame produced by collect(): bound to the symbolic result of the
                # pipeline that was collected (DESIGN.md 3, C16)
                kind, art = stage
                if kind == "plan":
                    rel = self.plan(art)
                else:
                    from .sem_sqlite import SqliteSem

                    sub = SqliteSem(self.sql_tables, str_len=self.str_len)
                    rel = sub.run(art)
                    self.side += sub.side
                    self.notes += sub.notes
                    self.constructs |= sub.constructs
                self.constructs.add("plan:DataFrameScan(collected)")
                if list(rel.names) != list(names):
                    raise Unsupported("collected frame schema differs from the stage-1 artefact")
                return rel.copy()
        raise Unsupported("unknown DataFrameScan")

    def _expand_selectors(self, exprs, rel):
        out = []
        for e in exprs:
            if isinstance(e, dict) and "Selector" in e:
                out += [{"Column": n} for n in self._selector(e["Selector"], rel)]
            else:
                out.append(e)
        return out

    def _selector(self, s, rel):
        if s == "Wildcard":
            return list(rel.names)
        if isinstance(s, dict) and "ByName" in s:
            return list(s["ByName"]["names"])
        if isinstance(s, dict) and "Difference" in s:
            a, b = s["Difference"]
            bb = set(self._selector(b, rel))
            return [n for n in self._selector(a, rel) if n not in bb]
        raise Unsupported(f"selector {s}")

    def p_Select(self, b):
        rel = self.plan(b["input"])
        exprs = self._expand_selectors(b["expr"], rel)
        if exprs and all(self.is_scalar(e) for e in exprs):
            # all-scalar select -> exactly one row; evaluate for a ghost viewer
            n = rel.n
            g = Rel(
                rel.names,
                {k: v + [K.null_of(v[0].ty if v else NULLT)] for k, v in rel.data.items()},
                rel.present + [K.FALSE],
                rel.ok + [z3.IntVal(-1)],
            )
            peer = [[rel.present[j] if j < n else K.FALSE for j in range(n + 1)] for _ in range(n)]
            peer.append([rel.present[j] if j < n else K.FALSE for j in range(n + 1)])
            ctx = Ctx(g.present, peer, g.ok)
            names, data = [], {}
            for e in exprs:
                name = self.out_name(e)
                cells = self.col(e, g, ctx)
                names.append(name)
                data[name] = [cells[n]]
            return Rel(names, data, [K.TRUE], [z3.IntVal(0)])
        ctx = Ctx.whole(rel)
        names, data = [], {}
        for e in exprs:
            name = self.out_name(e)
            if name in data:
                raise Unsupported("duplicate output name")
            names.append(name)
            data[name] = self.col(e, rel, ctx)
        return Rel(names, data, rel.present, rel.ok)

    def p_HStack(self, b):
        rel = self.plan(b["input"])
        ctx = Ctx.whole(rel)
        new = {}
        for e in b["exprs"]:
            new[self.out_name(e)] = self.col(e, rel, ctx)
        out = rel.copy()
        for name, cells in new.items():
            if name not in out.data:
                out.names.append(name)
            out.data[name] = cells
        return out

    def p_Filter(self, b):
        rel = self.plan(b["input"])
        pred = self.col(b["predicate"], rel, Ctx.whole(rel))
        return K.rel_filter(rel, [K.is_true(c) for c in pred])

    def _sort_keys(self, rel, ctx, by, opts):
        keys = []
        for e, d, nl in zip(by, opts["descending"], opts["nulls_last"], strict=True):
            v = self.vec(e, rel, ctx)
            if isinstance(v, StructVec):
                if d:
                    raise Unsupported("descending struct sort")
                keys += [SortKey(f, False, False) for f in v.fields]
            else:
                keys.append(SortKey(v, bool(d), bool(nl)))
        return keys

    def p_Sort(self, b):
        rel = self.plan(b["input"])
        if b.get("slice") is not None:
            raise Unsupported("sort with slice")
        opts = b["sort_options"]
        keys = self._sort_keys(rel, Ctx.whole(rel), b["by_column"], opts)
        out, extra = K.rel_sort(rel, keys, stable=bool(opts["maintain_order"]))
        self.side += extra
        return out

    def p_Slice(self, b):
        rel = self.plan(b["input"])
        off, ln = b["offset"], b["len"]
        if off < 0 or ln < 0:
            raise Unsupported("negative slice")
        return K.rel_slice(rel, off, ln)

    def p_MapFunction(self, b):
        rel = self.plan(b["input"])
        f = b["function"]
        if isinstance(f, dict) and "Rename" in f:
            m = dict(zip(f["Rename"]["existing"], f["Rename"]["new"], strict=True))
            for old in m:
                if old not in rel.data:
                    raise Unsupported("rename of unknown column")
            new_names = [m.get(n, n) for n in rel.names]
            if len(set(new_names)) != len(new_names):
                raise Unsupported("rename produces duplicates")
            return Rel(new_names, {m.get(n, n): rel.data[n] for n in rel.names}, rel.present, rel.ok)
        raise Unsupported(f"MapFunction {str(f)[:60]}")

    def p_GroupBy(self, b):
        rel = self.plan(b["input"])
        if b.get("apply") is not None or b.get("predicates"):
            raise Unsupported("group_by apply/predicates")
        whole = Ctx.whole(rel)
        keycols = [(self.out_name(e), self.col(e, rel, whole)) for e in b["keys"]]
        gctx = Ctx.grouped(rel, [c for _, c in keycols])
        names, data = [], {}
        for nme, c in keycols:
            names.append(nme)
            data[nme] = c
        for e in b["aggs"]:
            nme = self.out_name(e)
            if not self.is_scalar(e):
                raise Unsupported("non-scalar aggregation in group_by (list result)")
            names.append(nme)
            data[nme] = self.col(e, rel, gctx)
        present = K.group_leaders(rel, [c for _, c in keycols])
        if b.get("maintain_order"):
            ok = rel.ok
        else:
            ok, cons = K.unspecified_order(rel.n)
            self.side += cons
        return Rel(names, data, present, ok)

    def p_Union(self, b):
        rels = [self.plan(x) for x in b["inputs"]]
        if b["args"].get("diagonal") or b["args"].get("to_supertypes"):
            raise Unsupported("union args")
        out = rels[0]
        for r in rels[1:]:
            if r.names != out.names:
                raise ArtefactError("union inputs have different columns (Polars raises InvalidOperationError)")
            for nme in out.names:
                ta = out.data[nme][0].ty if out.data[nme] else None
                tb = r.data[nme][0].ty if r.data[nme] else None
                if ta != tb:
                    raise ArtefactError(
                        f"union inputs have different schema for column {nme!r}: {ta} vs {tb} (Polars raises InvalidOperationError for every input)"
                    )
            out, _ = K.rel_concat(out, r)
        if not b["args"].get("maintain_order", True):
            ok, cons = K.unspecified_order(out.n)
            self.side += cons
            out.ok = ok
        return out

    def p_Distinct(self, b):
        rel = self.plan(b["input"])
        o = b["options"]
        if o.get("subset") is not None:
            raise Unsupported("distinct subset")
        out = K.rel_distinct(rel)
        if not o.get("maintain_order"):
            ok, cons = K.unspecified_order(out.n)
            self.side += cons
            out.ok = ok
        return out

    def p_Join(self, b):
        left = self.plan(b["input_left"])
        right = self.plan(b["input_right"])
        args = b["options"]["args"]
        how = args["how"]
        suffix = args["suffix"]
        coalesce = args["coalesce"]
        if args.get("nulls_equal"):
            raise Unsupported("nulls_equal join")
        cond = b["condition"]
        # column naming: right columns that collide get the suffix
        drop_right = set()
        lctx, rctx = Ctx.whole(left), Ctx.whole(right)
        if "Equi" in cond:
            pairs = cond["Equi"]["on"]
            lkeys = [self.col(le, left, lctx) for le, _ in pairs]
            rkeys = [self.col(re_, right, rctx) for _, re_ in pairs]
            if coalesce == "JoinSpecific" and how in ("Left", "Inner"):
                for le, re_ in pairs:
                    if "Column" in re_ and "Column" in le and le["Column"] == re_["Column"]:
                        drop_right.add(re_["Column"])
            elif coalesce not in ("KeepColumns", "JoinSpecific"):
                raise Unsupported(f"coalesce {coalesce}")
        elif "NonEqui" in cond:
            pairs = None
        else:
            raise Unsupported("join condition")
        rmap = {}
        for n in right.names:
            if n in drop_right:
                continue
            rmap[n] = n + suffix if n in left.data else n
        if len(set(rmap.values())) != len(rmap) or set(rmap.values()) & set(left.names):
            raise Unsupported("join name collision (Polars raises DuplicateError)")
        right2 = Rel(list(rmap.values()), {rmap[n]: right.data[n] for n in rmap}, right.present, right.ok)
        na, nb = left.n, right2.n
        if pairs is not None:
            howk = {"Inner": "inner", "Left": "left", "Full": "full", "Cross": "inner"}.get(how)
            if howk is None:
                raise Unsupported(f"join how={how}")

            def on_fn(prod):
                out = []
                for i in range(na):
                    for j in range(nb):
                        conj = [K.is_true(K.compare("==", lk[i], rk[j])) for lk, rk in zip(lkeys, rkeys, strict=True)]
                        out.append(K.And(*conj))
                return out

            out, cons = K.rel_join(left, right2, on_fn, howk)
            self.side += cons
            return out
        # NonEqui (join_where): inner join on predicates over the product
        if how != "Inner":
            raise Unsupported(f"non-equi {how}")
        preds = cond["NonEqui"]["predicates"]

        def on_fn2(prod):
            pctx = Ctx.whole(prod)
            conj = None
            for p in preds:
                c = [K.is_true(x) for x in self.col(p, prod, pctx)]
                conj = c if conj is None else [K.And(a, b2) for a, b2 in zip(conj, c, strict=True)]
            return conj

        out, cons = K.rel_join(left, right2, on_fn2, "inner")
        # join_where drops the right column of `left == right` column predicates
        for p in preds:
            be = p.get("BinaryExpr") if isinstance(p, dict) else None
            if be and be["op"] == "Eq" and "Column" in be["left"] and "Column" in be["right"]:
                for side in (be["right"], be["left"]):
                    nm = side["Column"]
                    if nm in right2.data and nm in out.data:
                        out.names.remove(nm)
                        del out.data[nm]
                        break
        self.side += cons
        return out

    # ------------------------------------------------------------------ expressions
    def out_name(self, e):
        if isinstance(e, dict):
            if "Alias" in e:
                return e["Alias"][1]
            if "Column" in e:
                return e["Column"]
            for k in ("Cast",):
                if k in e:
                    return self.out_name(e[k]["expr"])
            if "Function" in e and e["Function"]["input"]:
                return self.out_name(e["Function"]["input"][0])
            if "BinaryExpr" in e:
                return self.out_name(e["BinaryExpr"]["left"])
            if "Agg" in e:
                (k, v), = e["Agg"].items()
                return self.out_name(v["input"] if isinstance(v, dict) and "input" in v else v)
            if "Over" in e:
                return self.out_name(e["Over"]["function"])
            if "SortBy" in e:
                return self.out_name(e["SortBy"]["expr"])
            if "Ternary" in e:
                return self.out_name(e["Ternary"]["truthy"])
            if "Literal" in e:
                return "literal"
        if e == "Len":
            return "len"
        raise Unsupported(f"output name of {str(e)[:60]}")

    _SCALAR_FUNCS_BOOL = ("Any", "All")

    def is_scalar(self, e):
        if e == "Len":
            return True
        if not isinstance(e, dict):
            return False
        (k, v), = e.items()
        if k == "Literal":
            return True
        if k == "Agg":
            return True
        if k == "Alias":
            return self.is_scalar(v[0])
        if k == "Cast":
            return self.is_scalar(v["expr"])
        if k == "BinaryExpr":
            return self.is_scalar(v["left"]) and self.is_scalar(v["right"])
        if k == "Ternary":
            return all(self.is_scalar(v[x]) for x in ("predicate", "truthy", "falsy"))
        if k == "Function":
            f = v["function"]
            if isinstance(f, dict) and "Boolean" in f and isinstance(f["Boolean"], dict):
                if any(x in f["Boolean"] for x in self._SCALAR_FUNCS_BOOL):
                    return True
            if isinstance(f, dict) and "Range" in f:
                return False
            return bool(v["input"]) and all(self.is_scalar(x) for x in v["input"])
        return False

    def col(self, e, rel, ctx):
        v = self.vec(e, rel, ctx)
        if isinstance(v, StructVec):
            raise Unsupported("struct column as output")
        return v

    def vec(self, e, rel: Rel, ctx: Ctx):
        n = ctx.n
        if e == "Len":
            self.constructs.add("expr:Len")
            return K.agg(ctx, "len", [None] * n)
        if not isinstance(e, dict) or len(e) != 1:
            raise Unsupported(f"expr {str(e)[:60]}")
        (k, v), = e.items()
        self.constructs.add(f"expr:{k}")
        if k == "Column":
            if v not in rel.data:
                raise Unsupported(f"unknown column {v}")
            return list(rel.data[v])
        if k == "Alias":
            return self.vec(v[0], rel, ctx)
        if k == "Literal":
            return [self.literal(v)] * n
        if k == "BinaryExpr":
            return self.binary(v["op"], self.col(v["left"], rel, ctx), self.col(v["right"], rel, ctx))
        if k == "Ternary":
            p = self.col(v["predicate"], rel, ctx)
            t = self.col(v["truthy"], rel, ctx)
            f = self.col(v["falsy"], rel, ctx)
            return [K.c_ite(K.is_true(p[i]), t[i], f[i]) for i in range(n)]
        if k == "Cast":
            return self.cast(self.col(v["expr"], rel, ctx), v["dtype"], v.get("options", "Strict"))
        if k == "Agg":
            return self.aggregate(v, rel, ctx)
        if k == "Over":
            return self.over(v, rel, ctx)
        if k == "SortBy":
            return self.sort_by(v, rel, ctx)
        if k == "Function":
            return self.function(v, rel, ctx)
        raise Unsupported(f"expr kind {k}")

    def literal(self, v):
        if "Scalar" in v:
            (ty, val), = v["Scalar"].items()
        elif "Dyn" in v:
            (ty, val), = v["Dyn"].items()
        else:
            raise Unsupported(f"literal {v}")
        if ty == "Null":
            return K.lit(None)
        if ty in ("Int", "Int64", "Int32", "Int8", "Int16", "UInt32", "UInt64", "UInt8", "UInt16"):
            return K.lit(int(val))
        if ty in ("Boolean",):
            return K.lit(bool(val))
        if ty in ("String", "Str", "StringOwned"):
            return K.lit(str(val))
        if ty in ("Float", "Float64", "Float32"):
            if isinstance(val, str) or val != val or val in (float("inf"), float("-inf")):
                raise Unsupported("non-finite float literal")
            return K.lit(float(val))
        if ty == "Date":
            return Cell(DATE, K.FALSE, z3.IntVal(int(val)))
        if ty == "Datetime":
            us, unit, tz = val
            if unit != "Microseconds" or tz is not None:
                raise Unsupported(f"datetime literal unit/zone {unit}/{tz}")
            return Cell(DT, K.FALSE, z3.IntVal(int(us)))
        raise Unsupported(f"literal type {ty}")

    def binary(self, op, a, b):
        n = len(a)
        if op in ("Plus", "Minus", "Multiply"):
            o = {"Plus": "+", "Minus": "-", "Multiply": "*"}[op]
            return [K.arith(o, a[i], b[i]) for i in range(n)]
        if op == "TrueDivide":
            return [K.truediv(a[i], b[i]) for i in range(n)]
        if op == "FloorDivide":
            return [K.int_binop("floordiv", a[i], b[i]) for i in range(n)]
        if op == "Modulus":
            return [K.int_binop("floormod", a[i], b[i]) for i in range(n)]
        cmp = {"Eq": "==", "NotEq": "!=", "Lt": "<", "LtEq": "<=", "Gt": ">", "GtEq": ">="}
        if op in cmp:
            return [K.compare(cmp[op], a[i], b[i]) for i in range(n)]
        if op in ("And", "LogicalAnd"):
            return [K.k_and(a[i], b[i]) for i in range(n)]
        if op in ("Or", "LogicalOr"):
            return [K.k_or(a[i], b[i]) for i in range(n)]
        if op == "Xor":
            return [K.k_xor(a[i], b[i]) for i in range(n)]
        raise Unsupported(f"binary op {op}")

    def cast(self, cells, dtype, options):
        if isinstance(dtype, dict) and isinstance(dtype.get("Literal"), dict) and dtype["Literal"].get("Datetime") == ["Microseconds", None]:
            dtype = {"Literal": "Datetime"}
        if not (isinstance(dtype, dict) and "Literal" in dtype and isinstance(dtype["Literal"], str)):
            raise Unsupported(f"cast dtype {dtype}")
        tgt = DT if dtype["Literal"] == "Datetime" else _POLARS_TY.get(dtype["Literal"])
        if tgt is None:
            raise Unsupported(f"cast target {dtype}")
        out = []
        for c in cells:
            out.append(self.cast_cell(c, tgt, dtype["Literal"], options))
        return out

    def cast_cell(self, c: Cell, tgt, tgt_name, options):
        src = c.ty
        if src in K.DT_UNITS:
            # a datetime column in its physical ms / ns unit (payload: the instant in microseconds)
            if tgt == DT:
                return Cell(DT, c.null, c.val)
            if tgt == DATE:
                return K.dt_to_date(Cell(DT, c.null, c.val))
            if tgt == STR:
                return S.dt_to_str(Cell(DT, c.null, c.val), digits=3 if src == K.DT_MS else 9)
            raise Unsupported(f"cast {src}->{tgt}")
        if src == NULLT:
            return K.null_of(tgt)
        if src == tgt:
            return c
        if tgt == NULLT:
            raise Unsupported("cast to null")
        if tgt == INT:
            if src == BOOL:
                return K.as_ty(c, INT)
            if src == REAL:
                # truncation toward zero
                v = K.If(c.val >= 0, z3.ToInt(c.val), -z3.ToInt(-c.val))
                return Cell(INT, c.null, v)
            if src == STR:
                return S.str_to_int(c, strict_error=(options == "Strict"), engine="polars")
        if tgt == REAL:
            if src in (INT, BOOL):
                return K.as_ty(c, REAL)
            if src == STR:
                raise Unsupported("string -> float")
        if tgt == DATE and src == DT:
            return K.dt_to_date(c)
        if tgt == DT and src == DATE:
            return K.date_to_dt(c)
        if tgt == STR and src == DATE:
            return S.date_to_str(c)
        if tgt == STR and src == DT:
            return S.dt_to_str(c)
        if tgt == STR:
            if src == INT:
                return S.int_to_str(c)
            if src == BOOL:
                return Cell(STR, c.null, K.If(c.val, z3.StringVal("true"), z3.StringVal("false")))
            if src == REAL:
                return S.real_to_str(c)
            raise Unsupported("float -> string")
        if tgt == BOOL:
            if src == INT:
                return Cell(BOOL, c.null, c.val != 0)
        raise Unsupported(f"cast {src}->{tgt}")

    def aggregate(self, v, rel, ctx):
        (kind, body), = v.items()
        self.constructs.add(f"agg:{kind}")
        inp = body["input"] if isinstance(body, dict) and "input" in body and len(body) <= 2 and kind in ("Count", "Min", "Max") else body
        cells = self.col(inp, rel, ctx)
        if kind == "Sum":
            return K.agg(ctx, "sum", cells, empty="zero")
        if kind == "Count":
            if body.get("include_nulls"):
                return K.agg(ctx, "len", cells)
            return K.agg(ctx, "count", cells)
        if kind in ("Min", "Max"):
            return K.agg(ctx, kind.lower(), cells)
        if kind == "Mean":
            return K.agg(ctx, "mean", cells)
        if kind == "First":
            return K.agg(ctx, "first", cells)
        raise Unsupported(f"Agg {kind}")

    def over(self, v, rel, ctx):
        if v.get("mapping") != "GroupsToRows":
            raise Unsupported("over mapping")
        pcols = [self.col(e, rel, ctx) for e in v["partition_by"]]
        ordkey = None
        gctx = Ctx.grouped(rel, pcols)
        gctx.present = ctx.present
        if v.get("order_by") is not None:
            oe, oopts = v["order_by"]
            ov = self.vec(oe, rel, ctx)
            fields = ov.fields if isinstance(ov, StructVec) else [ov]
            desc = bool(oopts.get("descending"))
            nl = bool(oopts.get("nulls_last"))
            if desc and len(fields) > 1:
                raise Unsupported("descending struct order")
            keys = [SortKey(f, desc, nl) for f in fields]
            # stable w.r.t. frame order
            ordkey = gctx.sort_rank(keys, stable=True)
            gctx = gctx.with_order(ordkey)
        return self.col(v["function"], rel, gctx)

    def sort_by(self, v, rel, ctx):
        opts = v["sort_options"]
        keys = self._sort_keys(rel, ctx, v["by"], opts)
        # Polars' expression-level sort_by is stable (checked by validation)
        rank = ctx.sort_rank(keys, stable=True)
        inner = self.col(v["expr"], rel, ctx)
        return K.gather(ctx, inner, rank, ctx.pos)

    def function(self, v, rel, ctx):
        f = v["function"]
        n = ctx.n
        fname = f if isinstance(f, str) else next(iter(f))
        self.constructs.add(f"fn:{fname}")
        if fname == "AsStruct":
            return StructVec([self.col(x, rel, ctx) for x in v["input"]])
        if fname == "Rank":
            o = f["Rank"]["options"]
            if o.get("descending"):
                raise Unsupported("rank descending")
            method = {"Dense": "dense", "Min": "min"}.get(o["method"])
            if method is None:
                raise Unsupported(f"rank method {o['method']}")
            iv = self.vec(v["input"][0], rel, ctx)
            if isinstance(iv, StructVec):
                keys = [SortKey(fld, False, False) for fld in iv.fields]
                return K.rank(ctx, keys, method)
            # primitive: nulls get null rank and are not counted
            sub_peer = [[K.And(ctx.peer[i][j], K.Not(iv[j].null)) for j in range(n)] for i in range(n)]
            sub = Ctx(ctx.present, sub_peer, ctx.ordkey)
            r = K.rank(sub, [SortKey(iv, False, False)], method)
            return [Cell(INT, iv[i].null, r[i].val) for i in range(n)]
        args = [self.col(x, rel, ctx) for x in v["input"]]
        if fname == "TemporalExpr":
            fld = {"Year": "year", "Month": "month", "Day": "day", "Hour": "hour", "Minute": "minute", "Second": "second",
                   "WeekDay": "day_of_week", "OrdinalDay": "day_of_year"}.get(f["TemporalExpr"] if isinstance(f["TemporalExpr"], str) else None)  # fmt: skip
            if fld is None:
                raise Unsupported(f"temporal function {f['TemporalExpr']}")
            return [K.temporal_field(c, fld) for c in args[0]]
        if fname == "Abs":
            return [K.c_abs(c) for c in args[0]]
        if fname == "Negate":
            return [K.neg(c) for c in args[0]]
        if fname == "FillNull":
            return [K.coalesce([args[0][i], args[1][i]]) for i in range(n)]
        if fname == "Coalesce":
            return [K.coalesce([a[i] for a in args]) for i in range(n)]
        if fname in ("MaxHorizontal", "MinHorizontal"):
            return [K.h_extreme("max" if fname.startswith("Max") else "min", [a[i] for a in args]) for i in range(n)]
        if fname == "SumHorizontal":
            raise Unsupported("sum_horizontal")
        if fname == "Boolean":
            return self.boolean_fn(f["Boolean"], args, ctx)
        if fname == "Replace":
            # value replacement: elements equal to `old` become `new`
            x, old_, new_ = args
            out = []
            for i in range(n):
                hit = K.is_true(K.compare("==", x[i], old_[i]))
                out.append(K.c_ite(hit, new_[i], x[i]))
            return out
        if fname == "ShiftAndFill":
            by = self._const_int(v["input"][1])
            fill = args[2] if len(args) > 2 else None
            if fill is not None and all(c.ty == NULLT for c in fill):
                fill = None
            return K.shift(ctx, args[0], by, fill)
        if fname == "Shift":
            return K.shift(ctx, args[0], self._const_int(v["input"][1]), None)
        if fname == "CumSum":
            if f["CumSum"].get("reverse"):
                raise Unsupported("reverse cum_sum")
            return K.cum_sum(ctx, args[0], null_at_null=True)
        if fname == "FillNullWithStrategy":
            if "Forward" not in f["FillNullWithStrategy"] or f["FillNullWithStrategy"]["Forward"] is not None:
                raise Unsupported("fill strategy")
            return K.forward_fill(ctx, args[0])
        if fname == "Range":
            if "IntRange" not in f["Range"] or f["Range"]["IntRange"].get("step") != 1:
                raise Unsupported("range")
            start = self._const_int(v["input"][0])
            # length = end - start must equal the frame height for a valid column; the
            # `end` expression is Len or Len+1 in everything the backend emits.
            end = args[1]
            ok_len = [end[i].val - start == ctx.count[i] for i in range(n)]
            self.side += [z3.Implies(ctx.present[i], ok_len[i]) for i in range(n)] if False else []
            return [Cell(INT, K.FALSE, start + ctx.pos[i]) for i in range(n)]
        if fname == "Clip":
            o = f["Clip"]
            x = args[0]
            idx = 1
            lo = hi = None
            if o["has_min"]:
                lo = args[idx]
                idx += 1
            if o["has_max"]:
                hi = args[idx]
            out = []

            def to_x_type(c, b):
                # polars casts the bounds to the dtype of the clipped expression
                if c.ty == INT and b.ty == REAL:
                    return Cell(INT, b.null, K.If(b.val >= 0, z3.ToInt(b.val), -z3.ToInt(-b.val)))
                return b

            if hi is not None:
                hi = [to_x_type(x[i], hi[i]) for i in range(n)]
            if lo is not None:
                lo = [to_x_type(x[i], lo[i]) for i in range(n)]
            for i in range(n):
                c = x[i]
                if hi is not None:
                    ty, (cc, h) = K.unify([c, hi[i]])
                    c = Cell(ty, cc.null, K.If(K.And(K.Not(h.null), K._val_cmp(">", ty, cc.val, h.val)), h.val, cc.val))
                if lo is not None:
                    ty, (cc, l) = K.unify([c, lo[i]])
                    c = Cell(ty, cc.null, K.If(K.And(K.Not(l.null), K._val_cmp("<", ty, cc.val, l.val)), l.val, cc.val))
                out.append(c)
            return out
        if fname in ("Floor", "Ceil"):
            out = []
            for c in args[0]:
                if c.ty == INT:
                    out.append(c)
                    continue
                fl = z3.ToReal(z3.ToInt(c.val))
                out.append(Cell(REAL, c.null, fl if fname == "Floor" else -z3.ToReal(z3.ToInt(-c.val))))
            return out
        if fname == "Round":
            d = f["Round"]["decimals"]
            return [S.round_half(c, d) for c in args[0]]
        if fname == "StringExpr":
            return self.string_fn(f["StringExpr"], args, v, ctx)
        raise Unsupported(f"function {fname}")

    def _const_int(self, e):
        if isinstance(e, dict) and "Literal" in e:
            lv = e["Literal"]
            (_, inner), = lv.items()
            (ty, val), = inner.items()
            if isinstance(val, int) and not isinstance(val, bool):
                return val
        raise Unsupported(f"non-constant int argument {str(e)[:60]}")

    def _const_str(self, e):
        if isinstance(e, dict) and "Literal" in e:
            (_, inner), = e["Literal"].items()
            (ty, val), = inner.items()
            if isinstance(val, str) and ty != "Null":
                return val
        return None

    def boolean_fn(self, b, args, ctx):
        n = ctx.n
        name = b if isinstance(b, str) else next(iter(b))
        self.constructs.add(f"bool:{name}")
        if name == "IsNull":
            return [K.is_null(c) for c in args[0]]
        if name == "IsNotNull":
            return [K.k_not(K.is_null(c)) for c in args[0]]
        if name == "Not":
            return [K.k_not(c) for c in args[0]]
        if name == "AnyHorizontal":
            out = []
            for i in range(n):
                r = args[0][i]
                r = K._as_bool(r)
                for a in args[1:]:
                    r = K.k_or(r, a[i])
                out.append(r)
            return out
        if name == "AllHorizontal":
            out = []
            for i in range(n):
                r = K._as_bool(args[0][i])
                for a in args[1:]:
                    r = K.k_and(r, a[i])
                out.append(r)
            return out
        if name in ("Any", "All"):
            if not b[name].get("ignore_nulls", True):
                raise Unsupported("kleene any/all aggregate")
            return K.agg(ctx, name.lower(), args[0], empty="zero")
        raise Unsupported(f"boolean fn {name}")

    def string_fn(self, sf, args, v, ctx):
        n = ctx.n
        name = sf if isinstance(sf, str) else next(iter(sf))
        self.constructs.add(f"str:{name}")
        x = args[0]
        L = self.str_len
        if name == "LenBytes":
            # UTF-8 length, unrolled over the bounded number of characters
            out = []
            for c in x:
                if c.ty != STR:
                    out.append(K.null_of(INT))
                    continue
                tot = z3.IntVal(0)
                for k in range(L):
                    code = z3.StrToCode(z3.SubString(c.val, k, 1))
                    tot = tot + K.If(k < z3.Length(c.val), K.If(code < 0x80, 1, K.If(code < 0x800, 2, K.If(code < 0x10000, 3, 4))), 0)
                out.append(Cell(INT, c.null, tot))
            return out
        if name == "LenChars":
            return [Cell(INT, c.null, z3.Length(c.val)) if c.ty == STR else K.null_of(INT) for c in x]
        if name in ("StartsWith", "EndsWith"):
            y = args[1]
            fn = z3.PrefixOf if name == "StartsWith" else z3.SuffixOf
            return [S.str_pred(x[i], y[i], fn) for i in range(n)]
        if name == "Contains":
            o = sf["Contains"]
            pat = self._const_str(v["input"][1])
            if not o["literal"]:
                if pat is None or S.has_regex_meta(pat):
                    raise Unsupported("regex contains")
            return [S.str_pred(x[i], args[1][i], lambda p, s: z3.Contains(s, p)) for i in range(n)]
        if name in ("Uppercase", "Lowercase"):
            return [S.change_case(c, name == "Uppercase", L) for c in x]
        if name == "Strptime":
            dtype, o = sf["Strptime"]
            if o.get("format") is not None or not o.get("strict") or not o.get("exact"):
                raise Unsupported("strptime options")
            tgt = DATE if dtype == {"Literal": "Date"} else DT if dtype == {"Literal": {"Datetime": ["Microseconds", None]}} else None
            if tgt is None:
                raise Unsupported(f"strptime target {dtype}")
            return [S.parse_temporal_const(c, tgt) for c in x]
        if name == "Replace":
            o = sf["Replace"]
            if o["n"] != -1:
                raise Unsupported("replace n")
            pat = self._const_str(v["input"][1])
            rep = self._const_str(v["input"][2])
            if pat is None or rep is None:
                raise Unsupported("non-literal replace arguments")
            if o["literal"]:
                return [S.replace_all_literal(c, pat, rep, L) for c in x]
            return [S.replace_all_regex(c, pat, rep, L) for c in x]
        if name == "StripChars":
            if not all(c.ty == NULLT for c in args[1]):
                raise Unsupported("strip_chars with characters")
            return [S.strip_ws(c, L, side=self.side) for c in x]
        if name == "Slice":
            off = self._const_int(v["input"][1])
            ln = self._const_int(v["input"][2])
            if off < 0 or ln < 0:
                raise Unsupported("negative slice")
            return [Cell(STR, c.null, z3.SubString(c.val, off, ln)) for c in x]
        raise Unsupported(f"string fn {name}")
