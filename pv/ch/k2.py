"""K2: integer-parameter implementations of the SQL backends on symbolic ints: `shift`
must compile to LAG for by >= 0 and LEAD for by < 0 with a non-negative offset, and return
an expression on every path; SQLite `round` with negative digits must scale by a positive
power of ten."""

import sqlalchemy as sqa

from pydiverse.common import Float64, Int64
from pydiverse.transform._internal.backend.sqlite import SqliteImpl
from pydiverse.transform._internal.ops import ops

_x = sqa.column("x", sqa.BigInteger)
_f = sqa.column("f", sqa.Double)
_shift = SqliteImpl.get_impl(ops.shift, (Int64(), Int64(), Int64()))
_round = SqliteImpl.get_impl(ops.round, (Float64(), Int64()))


def _render(e):
    return str(e.compile(compile_kwargs={"literal_binds": True}))


def k2_shift(by: int) -> bool:
    """
    pre: -40 <= by <= 40
    post: _
    """
    e = _shift(_x, by, None)
    if e is None:
        return False
    # inspect the function element instead of rendering it: the offset stays symbolic
    name = e.name.upper()
    off = list(e.clauses)[1].value
    if by >= 0:
        return name == "LAG" and off == by
    return name == "LEAD" and off == -by and off > 0


def k2_shift__reach(by: int) -> bool:
    """
    pre: -40 <= by <= 40
    post: not _
    """
    e = _shift(_x, by, None)
    if e is None:
        return False
    # inspect the function element instead of rendering it: the offset stays symbolic
    name = e.name.upper()
    off = list(e.clauses)[1].value
    if by >= 0:
        return name == "LAG" and off == by
    return name == "LEAD" and off == -by and off > 0


def k2_round(d: int) -> bool:
    """
    pre: -6 <= d <= 6
    post: _
    """
    e = _round(_f, d)
    if e is None:
        return False
    s = _render(e)
    if d >= 0:
        return s == f"ROUND(f, {d})"
    k = 10**-d
    return k > 1 and s in (f"ROUND(f / {k}) * {k}", f"ROUND(f / CAST({k} AS NUMERIC)) * {k}")


def k2_round__reach(d: int) -> bool:
    """
    pre: -6 <= d <= 6
    post: not _
    """
    e = _round(_f, d)
    if e is None:
        return False
    s = _render(e)
    if d >= 0:
        return s == f"ROUND(f, {d})"
    k = 10**-d
    return k > 1 and s in (f"ROUND(f / {k}) * {k}", f"ROUND(f / CAST({k} AS NUMERIC)) * {k}")
