"""K3: table metadata vs compiled select list with SYMBOLIC column names / selections.
Real code executed symbolically: verbs.mutate / rename / select / summarize / group_by,
preprocess_arg, Cache.update, Cache.from_ast, Table.__iter__/__len__/__contains__,
polars.compile_ast (plan construction only - nothing is executed).

Postcondition: columns() == iteration == names recomputed from the whole AST ==
names of the compiled Polars select list; len / in agree."""

import polars as pl

import pydiverse.transform as pdt
from pydiverse.transform._internal.backend import polars as PB
from pydiverse.transform._internal.pipe.cache import Cache
from pydiverse.transform.extended import columns, group_by, mutate, rename, select, summarize

_df = pl.DataFrame({"a": [1], "b": [2], "c": [3]})
_ID = "abcx_"
_MAXLEN = int(__import__("os").environ.get("PV_K3_MAXLEN", "1"))


def _t():
    return pdt.Table(_df, name="t")


def _agree(r, compiled_too=True) -> bool:
    meta = r >> columns()
    it = [c.name for c in r]
    recomputed = list(Cache.from_ast(r._ast).name_to_uuid.keys())
    if compiled_too:
        lf, name_in_df, sel, _ = PB.compile_ast(r._ast.clone())
        compiled = [name_in_df[uid] for uid in sel]
    else:
        # Polars' native rename() does not tolerate symbolic strings; the compiled select
        # list of renames is covered by the structural part with concrete names
        compiled = meta
    return (
        meta == it
        and meta == recomputed
        and meta == compiled
        and len(r) == len(meta)
        and all(n in r for n in meta)
        and len(set(meta)) == len(meta)
    )


def _okname(n: str) -> bool:
    return 1 <= len(n) <= _MAXLEN and all(ch in _ID for ch in n)


def k3_mutate_mutate(n1: str, n2: str) -> bool:
    """
    pre: _okname(n1) and _okname(n2)
    post: _
    """
    t = _t()
    return _agree(t >> mutate(**{n1: t.a + 1}) >> mutate(**{n2: t.b}))


def k3_mutate_mutate__reach(n1: str, n2: str) -> bool:
    """
    pre: _okname(n1) and _okname(n2)
    post: not _
    """
    t = _t()
    return _agree(t >> mutate(**{n1: t.a + 1}) >> mutate(**{n2: t.b}))


def k3_mutate_two_kwargs(n1: str, n2: str) -> bool:
    """
    pre: _okname(n1) and _okname(n2) and n1 != n2
    post: _
    """
    t = _t()
    return _agree(t >> mutate(**{n1: t.a + 1, n2: t.b}))


def k3_mutate_two_kwargs__reach(n1: str, n2: str) -> bool:
    """
    pre: _okname(n1) and _okname(n2) and n1 != n2
    post: not _
    """
    t = _t()
    return _agree(t >> mutate(**{n1: t.a + 1, n2: t.b}))


def k3_select_then_mutate(i: int, j: int, n1: str) -> bool:
    """
    pre: 0 <= i < 3 and 0 <= j < 3 and i != j and _okname(n1)
    post: _
    """
    t = _t()
    cols = [t.a, t.b, t.c]
    return _agree(t >> select(cols[i], cols[j]) >> mutate(**{n1: t.c}))


def k3_select_then_mutate__reach(i: int, j: int, n1: str) -> bool:
    """
    pre: 0 <= i < 3 and 0 <= j < 3 and i != j and _okname(n1)
    post: not _
    """
    t = _t()
    cols = [t.a, t.b, t.c]
    return _agree(t >> select(cols[i], cols[j]) >> mutate(**{n1: t.c}))


def k3_rename_then_mutate(n1: str, n2: str) -> bool:
    """
    pre: _okname(n1) and _okname(n2) and n1 != "b" and n1 != "c"
    post: _
    """
    t = _t()
    return _agree(t >> rename({"a": n1}) >> mutate(**{n2: t.a}), compiled_too=False)


def k3_rename_then_mutate__reach(n1: str, n2: str) -> bool:
    """
    pre: _okname(n1) and _okname(n2) and n1 != "b" and n1 != "c"
    post: not _
    """
    t = _t()
    return _agree(t >> rename({"a": n1}) >> mutate(**{n2: t.a}), compiled_too=False)


def k3_summarize_names(n1: str, n2: str) -> bool:
    """
    pre: _okname(n1) and _okname(n2) and n1 != n2
    post: _
    """
    t = _t()
    return _agree(t >> group_by(t.a, t.b) >> summarize(**{n1: t.c.sum(), n2: t.c.max()}))


def k3_summarize_names__reach(n1: str, n2: str) -> bool:
    """
    pre: _okname(n1) and _okname(n2) and n1 != n2
    post: not _
    """
    t = _t()
    return _agree(t >> group_by(t.a, t.b) >> summarize(**{n1: t.c.sum(), n2: t.c.max()}))


def k3_mutate_select_mutate(n1: str, i: int, n2: str) -> bool:
    """
    pre: _okname(n1) and _okname(n2) and 0 <= i < 3
    post: _
    """
    t = _t()
    m = t >> mutate(**{n1: t.a * 2})
    cols = [c for c in m]
    keep = [c for k, c in enumerate(cols) if k != i % len(cols)]
    return _agree(m >> select(*reversed(keep)) >> mutate(**{n2: t.b}))


def k3_mutate_select_mutate__reach(n1: str, i: int, n2: str) -> bool:
    """
    pre: _okname(n1) and _okname(n2) and 0 <= i < 3
    post: not _
    """
    t = _t()
    m = t >> mutate(**{n1: t.a * 2})
    cols = [c for c in m]
    keep = [c for k, c in enumerate(cols) if k != i % len(cols)]
    return _agree(m >> select(*reversed(keep)) >> mutate(**{n2: t.b}))
