"""Runs the CrossHair harness modules (E2).  One `crosshair check` process per condition,
in parallel; counterexamples are replayed under plain CPython before they are reported.

Outcome classes (DESIGN.md 2.2 (iii)):
  confirmed      "Confirmed over all paths"  - holds for every value in the precondition
  counterexample replayed without tracing; reproduced -> violation
  inconclusive   "Not confirmed" / "Unable to meet precondition" / timeout
Each harness f has a reachability twin f__reach (same body, negated postcondition) that
must come back with a counterexample - otherwise the harness is vacuous."""

from __future__ import annotations

import ast
import concurrent.futures as cf
import os
import re
import subprocess
import sys
import time

HERE = os.path.dirname(os.path.abspath(__file__))
ROOT = os.path.dirname(os.path.dirname(HERE))
PY = sys.executable

ERR_RE = re.compile(r"error: (?P<what>.*?) when calling (?P<call>\w+\(.*\))(?: \(which returns (?P<ret>.*)\))?\s*$")


def discover(modfile):
    src = open(modfile).read()
    tree = ast.parse(src)
    out = []
    for node in tree.body:
        if isinstance(node, ast.FunctionDef) and not node.name.startswith("_"):
            doc = ast.get_docstring(node) or ""
            if "post:" in doc:
                out.append((node.name, node.lineno + 1))
    return out


TIER = ["quick"]


def _env():
    env = dict(os.environ)
    if TIER[0] == "thorough":
        env.setdefault("PV_K3_MAXLEN", "2")  # two-character symbolic names (measured: <= 300 s per condition)
    pp = env.get("PYTHONPATH", "")
    env["PYTHONPATH"] = (pp + os.pathsep if pp else "") + ROOT
    env["PYTHONWARNINGS"] = "ignore"
    return env


def run_condition(modfile, name, line, timeout_s):
    t0 = time.time()
    cmd = [PY, os.path.join(HERE, "launch.py"), "check", "--report_all", "--per_condition_timeout", str(timeout_s), f"{modfile}:{line}"]
    try:
        p = subprocess.run(cmd, capture_output=True, text=True, timeout=timeout_s * 2 + 120, env=_env(), cwd=ROOT)
        out = p.stdout + p.stderr
    except subprocess.TimeoutExpired as e:
        out = (e.stdout or "") + (e.stderr or "") if isinstance(e.stdout, str) else ""
        out += "\nTIMEOUT"
    res = {"name": name, "seconds": round(time.time() - t0, 2), "raw": out[-1500:]}
    if "Confirmed over all paths" in out:
        res["outcome"] = "confirmed"
        return res
    for ln in out.splitlines():
        m = ERR_RE.search(ln)
        if m:
            res["outcome"] = "counterexample"
            res["call"] = m.group("call").split(" (which returns")[0]
            res["what"] = m.group("what")
            return res
    if "Not confirmed" in out:
        res["outcome"] = "not-confirmed"
    elif "Unable to meet precondition" in out:
        res["outcome"] = "unable-to-meet-precondition"
    elif "TIMEOUT" in out:
        res["outcome"] = "timeout"
    else:
        res["outcome"] = "harness-error"
    return res


def replay_call(modname, call):
    """evaluates the reported call under plain CPython in a fresh process; returns
    'False' / 'True' / 'raised:<exc>'"""
    code = (
        "import sys; sys.path.insert(0, %r)\n"
        "import importlib\n"
        "m = importlib.import_module(%r)\n"
        "try:\n"
        "    r = eval('m.' + %r)\n"
        "    print('RESULT', bool(r))\n"
        "except Exception as e:\n"
        "    print('RESULT raised:' + type(e).__name__ + ':' + str(e)[:200])\n"
    ) % (ROOT, modname, call)
    p = subprocess.run([PY, "-c", code], capture_output=True, text=True, timeout=300, env=_env(), cwd=ROOT)
    for ln in p.stdout.splitlines():
        if ln.startswith("RESULT "):
            return ln[7:]
    return "replay-failed:" + (p.stderr[-300:] if p.stderr else "")


def run_harnesses(group, tier, seed, *, timeout_s=None, only=None):
    modfile = os.path.join(HERE, f"{group}.py")
    modname = f"pv.ch.{group}"
    timeout_s = timeout_s or (40 if tier == "quick" else 600)
    TIER[0] = tier
    conds = discover(modfile)
    if only:
        conds = [c for c in conds if only in c[0]]
    t0 = time.time()
    with cf.ThreadPoolExecutor(max_workers=16) as ex:
        futs = {ex.submit(run_condition, modfile, n, ln, timeout_s): n for n, ln in conds}
        results = {futs[f]: f.result() for f in cf.as_completed(futs)}
    violations, faults, samples = [], [], []
    confirmed = inconclusive = 0
    for name, _ in conds:
        r = results[name]
        twin = name.endswith("__reach")
        if twin:
            if r["outcome"] != "counterexample":
                faults.append(f"{group}.{name}: reachability twin not refuted ({r['outcome']}) - harness may be vacuous")
            continue
        if r["outcome"] == "confirmed":
            confirmed += 1
        elif r["outcome"] == "counterexample":
            rep = replay_call(modname, r["call"])
            r["replay"] = rep
            if rep == "False" or rep.startswith("raised:"):
                violations.append(
                    {
                        "key": f"{group}.{name}",
                        "what": f"CrossHair counterexample {r['call']} ({r['what']}); replay without tracing: {rep}",
                        "payload": {"harness": f"{modname}.{name}", "call": r["call"], "replay": rep},
                    }
                )
            else:
                inconclusive += 1
                faults.append(f"{group}.{name}: counterexample {r['call']} did not reproduce without tracing ({rep})")
        elif r["outcome"] == "harness-error":
            faults.append(f"{group}.{name}: harness-error: {r['raw'][-300:]}")
            inconclusive += 1
        else:
            inconclusive += 1
        samples.append({"harness": name, "outcome": r["outcome"], "seconds": r["seconds"], **({"call": r["call"]} if "call" in r else {})})
    from . import launch

    main_conds = [n for n, _ in conds if not n.endswith("__reach")]
    return {
        "violations": violations,
        "harness_faults": faults,
        "confirmed": confirmed,
        "inconclusive": inconclusive,
        "paths_or_conditions": len(main_conds),
        "coverage": {
            "module": modname,
            "conditions": len(main_conds),
            "confirmed_over_all_paths": confirmed,
            "counterexamples_replayed": len([1 for n in main_conds if results[n]["outcome"] == "counterexample"]),
            "inconclusive": inconclusive,
            "reachability_twins_refuted": len([1 for n, _ in conds if n.endswith("__reach") and results[n]["outcome"] == "counterexample"]),
            "per_condition_timeout_s": timeout_s,
            "solver_seconds": round(sum(r["seconds"] for r in results.values()), 1),
            "wall_s": round(time.time() - t0, 1),
            "results": samples,
        },
        "assumptions": ["CrossHair 0.0.110 + z3: per-path symbolic execution; 'Confirmed over all paths' is exhaustive for the stated precondition"] + ["stub: " + s for s in launch.STUBS],
    }


def replay_violation(path):
    import json

    rec = json.load(open(path))
    pl = rec["payload"]
    mod, fn = pl["harness"].rsplit(".", 1)
    rep = replay_call(mod, pl["call"])
    print(pl["call"], "->", rep)
    return 1 if (rep == "False" or rep.startswith("raised:")) else 0
