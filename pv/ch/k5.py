"""K5 / K6: the arg-min kernel of overload resolution and the parameterised type families,
executed symbolically on the real code.

K5: best_signature_match with types.conversion_cost replaced by symbolic cost pairs: returns
the index of the lexicographic minimum and raises (the uniqueness assertion) exactly when
the minimum is not unique.
K6: converts_to / conversion_cost / lca_type on Decimal(p, s) and String(n) with symbolic
parameters: a cost is defined whenever the conversion is allowed; reflexive cost is (0, 0);
the least common type is convertible-from both inputs and symmetric."""

from pydiverse.common import Decimal, String
from pydiverse.transform._internal.ops import signature
from pydiverse.transform._internal.tree import types

_COSTS = {}
_orig_cost = types.conversion_cost


class _Tok(types.Dtype):
    """opaque argument / candidate tokens whose conversion cost is looked up in _COSTS"""

    __slots__ = ("i",)

    def __init__(self, i):
        self.i = i


def _cost(s, t):
    if isinstance(t, _Tok):
        return _COSTS[t.i]
    return _orig_cost(s, t)


types.conversion_cost = _cost


def _run_best(costs):
    _COSTS.clear()
    for i, c in enumerate(costs):
        _COSTS[i] = c
    sig = [_Tok(-1)]
    cands = [[_Tok(i)] for i in range(len(costs))]
    return signature.best_signature_match(sig, cands)


def k5_argmin3(a1: int, a2: int, b1: int, b2: int, c1: int, c2: int) -> bool:
    """
    pre: 0 <= a1 <= 3 and 0 <= a2 <= 3 and 0 <= b1 <= 3 and 0 <= b2 <= 3 and 0 <= c1 <= 3 and 0 <= c2 <= 3
    post: _
    """
    costs = [(a1, a2), (b1, b2), (c1, c2)]
    m = min(costs)
    unique = costs.count(m) == 1
    try:
        i = _run_best(costs)
    except AssertionError:
        return not unique
    return unique and costs[i] == m


def k5_argmin3__reach(a1: int, a2: int, b1: int, b2: int, c1: int, c2: int) -> bool:
    """
    pre: 0 <= a1 <= 3 and 0 <= a2 <= 3 and 0 <= b1 <= 3 and 0 <= b2 <= 3 and 0 <= c1 <= 3 and 0 <= c2 <= 3
    post: not _
    """
    costs = [(a1, a2), (b1, b2), (c1, c2)]
    m = min(costs)
    unique = costs.count(m) == 1
    try:
        i = _run_best(costs)
    except AssertionError:
        return not unique
    return unique and costs[i] == m


def k6_decimal(p1: int, s1: int, p2: int, s2: int) -> bool:
    """
    pre: 1 <= p1 <= 38 and 0 <= s1 <= p1 and 1 <= p2 <= 38 and 0 <= s2 <= p2
    post: _
    """
    a, b = Decimal(p1, s1), Decimal(p2, s2)
    ok = types.conversion_cost(a, a) == (0, 0)
    if types.converts_to(a, b):
        c = types.conversion_cost(a, b)
        ok = ok and len(c) == 2 and c >= (0, 0)
    l1 = types.lca_type([a, b])
    l2 = types.lca_type([b, a])
    return ok and l1 == l2 and types.converts_to(a, l1) and types.converts_to(b, l1)


def k6_decimal__reach(p1: int, s1: int, p2: int, s2: int) -> bool:
    """
    pre: 1 <= p1 <= 38 and 0 <= s1 <= p1 and 1 <= p2 <= 38 and 0 <= s2 <= p2
    post: not _
    """
    a, b = Decimal(p1, s1), Decimal(p2, s2)
    ok = types.conversion_cost(a, a) == (0, 0)
    if types.converts_to(a, b):
        c = types.conversion_cost(a, b)
        ok = ok and len(c) == 2 and c >= (0, 0)
    l1 = types.lca_type([a, b])
    l2 = types.lca_type([b, a])
    return ok and l1 == l2 and types.converts_to(a, l1) and types.converts_to(b, l1)


def k6_string(n1: int, n2: int) -> bool:
    """
    pre: 1 <= n1 <= 64 and 1 <= n2 <= 64
    post: _
    """
    a, b = String(n1), String(n2)
    ok = types.conversion_cost(a, a) == (0, 0) and types.converts_to(a, String())
    if types.converts_to(a, b):
        ok = ok and len(types.conversion_cost(a, b)) == 2
        ok = ok and n2 >= n1
    l1 = types.lca_type([a, b])
    l2 = types.lca_type([b, a])
    return ok and l1 == l2 and types.converts_to(a, l1) and types.converts_to(b, l1)


def k6_string__reach(n1: int, n2: int) -> bool:
    """
    pre: 1 <= n1 <= 64 and 1 <= n2 <= 64
    post: not _
    """
    a, b = String(n1), String(n2)
    ok = types.conversion_cost(a, a) == (0, 0) and types.converts_to(a, String())
    if types.converts_to(a, b):
        ok = ok and len(types.conversion_cost(a, b)) == 2
        ok = ok and n2 >= n1
    l1 = types.lca_type([a, b])
    l2 = types.lca_type([b, a])
    return ok and l1 == l2 and types.converts_to(a, l1) and types.converts_to(b, l1)
