"""K1: LIMIT/OFFSET composition of consecutive slice_head verbs in the real SQL compiler
(SqlImpl.compile_ast SliceHead branch + compile_query), for ALL non-negative n / offset
(unbounded symbolic ints) and every row count R.  The selected row interval of the
composed LIMIT/OFFSET must equal successive slicing."""

import copy

import sqlalchemy as sqa

import pydiverse.transform as pdt
from pydiverse.transform._internal.backend.sql import SqlImpl
from pydiverse.transform._internal.tree import verbs

_eng = sqa.create_engine("sqlite://")
_tbl = sqa.Table("t", sqa.MetaData(), sqa.Column("a", sqa.BigInteger))
_leaf = pdt.Table(_tbl, pdt.SqlAlchemy(_eng))._ast
_Impl = type(_leaf)
_leaf_compiled = _Impl.compile_ast(_leaf, {})
_orig_compile_ast = SqlImpl.compile_ast.__func__


def _patched_compile_ast(cls, nd, needed_cols):
    if nd is _leaf:
        table, query, sqa_expr = _leaf_compiled
        return table, copy.copy(query), dict(sqa_expr)
    return _orig_compile_ast(cls, nd, needed_cols)


SqlImpl.compile_ast = classmethod(_patched_compile_ast)


def _compiled_interval(slices, R):
    """rows [lo, hi) of an R-row table selected by the LIMIT/OFFSET that the real
    compiler produces for the chain of SliceHead nodes"""
    nd = _leaf
    for n, off in slices:
        nd = verbs.SliceHead(nd, n, off)
    table, query, sqa_expr = _Impl.compile_ast(nd, {})
    limit, offset = query.limit, query.offset or 0
    if limit is None:
        return 0, R
    if limit < 0:  # SQLite: negative LIMIT = no limit
        return min(offset, R), R
    lo = min(offset, R)
    hi = min(offset + limit, R)
    return lo, max(hi, lo)


def _reference_interval(slices, R):
    lo, hi = 0, R
    for n, off in slices:
        lo2 = min(lo + off, hi)
        hi2 = min(lo2 + n, hi)
        lo, hi = lo2, hi2
    return lo, hi


def _same(a, b):
    # two empty intervals are the same selection
    return a == b or (a[0] >= a[1] and b[0] >= b[1])


def k1_two_slices(n1: int, o1: int, n2: int, o2: int, R: int) -> bool:
    """
    pre: n1 >= 0 and o1 >= 0 and n2 >= 0 and o2 >= 0 and R >= 0
    post: _
    """
    s = [(n1, o1), (n2, o2)]
    return _same(_compiled_interval(s, R), _reference_interval(s, R))


def k1_two_slices__reach(n1: int, o1: int, n2: int, o2: int, R: int) -> bool:
    """
    pre: n1 >= 0 and o1 >= 0 and n2 >= 0 and o2 >= 0 and R >= 0
    post: not _
    """
    s = [(n1, o1), (n2, o2)]
    return _same(_compiled_interval(s, R), _reference_interval(s, R))


def k1_three_slices(n1: int, o1: int, n2: int, o2: int, n3: int, o3: int, R: int) -> bool:
    """
    pre: n1 >= 0 and o1 >= 0 and n2 >= 0 and o2 >= 0 and n3 >= 0 and o3 >= 0 and R >= 0
    post: _
    """
    s = [(n1, o1), (n2, o2), (n3, o3)]
    return _same(_compiled_interval(s, R), _reference_interval(s, R))


def k1_three_slices__reach(n1: int, o1: int, n2: int, o2: int, n3: int, o3: int, R: int) -> bool:
    """
    pre: n1 >= 0 and o1 >= 0 and n2 >= 0 and o2 >= 0 and n3 >= 0 and o3 >= 0 and R >= 0
    post: not _
    """
    s = [(n1, o1), (n2, o2), (n3, o3)]
    return _same(_compiled_interval(s, R), _reference_interval(s, R))


def k1_single_slice(n1: int, o1: int, R: int) -> bool:
    """
    pre: n1 >= 0 and o1 >= 0 and R >= 0
    post: _
    """
    s = [(n1, o1)]
    return _same(_compiled_interval(s, R), _reference_interval(s, R))


def k1_single_slice__reach(n1: int, o1: int, R: int) -> bool:
    """
    pre: n1 >= 0 and o1 >= 0 and R >= 0
    post: not _
    """
    s = [(n1, o1)]
    return _same(_compiled_interval(s, R), _reference_interval(s, R))
