"""CrossHair launcher: applies the configuration this code base needs (found by
probing, DESIGN.md 2.2 (ii)) and then hands over to the CrossHair CLI.  Every patch here is
on CrossHair / third-party modules, never on /repo; each one is listed in the evidence as
a stub."""

import sys
import types

STUBS = [
    "crosshair.enforce.EnforcedConditions.trace_call disabled (callee-contract enforcement introspects LazyFrame and trips Polars' lazy optional imports)",
    "stub module polars_cloud registered (Polars lazy import)",
    "pydiverse.common Dtype.to_polars / to_sql / to_arrow run under NoTracing (native conversions)",
    "crosshair MapAddInterceptor passes through keys of type UUID / Dtype / ColExpr (ColExpr.__eq__ builds an expression)",
]


def configure():
    import crosshair.enforce
    import crosshair.opcode_intercept as oi
    from crosshair.tracers import NoTracing

    crosshair.enforce.EnforcedConditions.trace_call = lambda self, frame, fn, bt: None
    if "polars_cloud" not in sys.modules:
        m = types.ModuleType("polars_cloud")
        m.ClientContext = type("ClientContext", (), {})
        sys.modules["polars_cloud"] = m
    import uuid

    from pydiverse.common import Dtype

    for name in ("to_polars", "to_sql", "to_arrow"):
        for cls in [Dtype] + list(_all_subclasses(Dtype)):
            fn = cls.__dict__.get(name)
            if fn is None or getattr(fn, "_pv_wrapped", False):
                continue

            def make(fn):
                def wrapped(*a, **k):
                    with NoTracing():
                        return fn(*a, **k)

                wrapped._pv_wrapped = True
                return wrapped

            if isinstance(fn, (staticmethod, classmethod)):
                continue
            setattr(cls, name, make(fn))
    from pydiverse.transform._internal.tree.col_expr import ColExpr

    orig = oi.MapAddInterceptor.trace_op

    def trace_op(self, frame, codeobj, codenum):
        try:
            key = frame_stack_read(frame, -2)
        except Exception:  # noqa: BLE001
            return orig(self, frame, codeobj, codenum)
        with NoTracing():
            if isinstance(key, (uuid.UUID, Dtype, ColExpr)):
                return None
        return orig(self, frame, codeobj, codenum)

    from crosshair.tracers import frame_stack_read

    oi.MapAddInterceptor.trace_op = trace_op


def _all_subclasses(cls):
    for sub in cls.__subclasses__():
        yield sub
        yield from _all_subclasses(sub)


if __name__ == "__main__":
    sys.path.insert(0, "/verif")
    configure()
    from crosshair.main import main

    sys.argv = ["crosshair"] + sys.argv[1:]
    main()
