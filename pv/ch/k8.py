"""K8: target dispatch of verbs.export on the real code, with the backend export replaced
by a contract stub (a frame of symbolic height whose column count is that of the table).
Scalar needs exactly one column and one row, Dict exactly one row (TypeError otherwise),
and every target returns the stub's projection of the *same* frame."""

import polars as pl

import pydiverse.transform as pdt
from pydiverse.transform._internal.backend.polars import PolarsImpl
from pydiverse.transform.extended import export, select

_df = pl.DataFrame({"a": [1], "b": [2], "c": [3]})


class _Frame:
    """contract stub of the exported frame"""

    def __init__(self, ncols, height):
        self.ncols = ncols
        self.height = height
        self.columns = ["a", "b", "c"][:ncols]

    def item(self):
        assert self.ncols == 1 and self.height == 1
        return ("item", 0)

    def to_dicts(self):
        return [{c: (c, i) for c in self.columns} for i in range(self.height)]

    def to_dict(self, as_series=True):
        assert as_series is False
        return {c: [(c, i) for i in range(self.height)] for c in self.columns}

    def collect(self):
        return self


_HEIGHT = [0]


def _stub_export(nd, target, *, schema_overrides):
    from pydiverse.transform._internal.pipe.cache import Cache

    ncols = len(Cache.from_ast(nd).selected_cols())
    return _Frame(ncols, _HEIGHT[0])


PolarsImpl.export = staticmethod(_stub_export)


def _table(ncols):
    t = pdt.Table(_df, name="t")
    return t >> select(*[t.a, t.b, t.c][:ncols])


def k8_targets(ncols: int, height: int) -> bool:
    """
    pre: 0 <= ncols <= 3 and 0 <= height <= 3
    post: _
    """
    _HEIGHT[0] = height
    t = _table(ncols)
    base = t >> export(pdt.Polars())
    ok = isinstance(base, _Frame) and base.ncols == ncols and base.height == height
    # Scalar
    try:
        s = t >> export(pdt.Scalar())
        ok = ok and ncols == 1 and height == 1 and s == ("item", 0)
    except TypeError:
        ok = ok and not (ncols == 1 and height == 1)
    # Dict
    try:
        d = t >> export(pdt.Dict())
        ok = ok and height == 1 and d == base.to_dicts()[0]
    except TypeError:
        ok = ok and height != 1
    ok = ok and (t >> export(pdt.DictOfLists())) == base.to_dict(as_series=False)
    ok = ok and (t >> export(pdt.ListOfDicts())) == base.to_dicts()
    ok = ok and (t >> export(pdt.Polars(lazy=True))).collect().to_dicts() == base.to_dicts()
    return ok


def k8_targets__reach(ncols: int, height: int) -> bool:
    """
    pre: 0 <= ncols <= 3 and 0 <= height <= 3
    post: not _
    """
    _HEIGHT[0] = height
    t = _table(ncols)
    base = t >> export(pdt.Polars())
    ok = isinstance(base, _Frame) and base.ncols == ncols and base.height == height
    try:
        s = t >> export(pdt.Scalar())
        ok = ok and ncols == 1 and height == 1 and s == ("item", 0)
    except TypeError:
        ok = ok and not (ncols == 1 and height == 1)
    try:
        d = t >> export(pdt.Dict())
        ok = ok and height == 1 and d == base.to_dicts()[0]
    except TypeError:
        ok = ok and height != 1
    ok = ok and (t >> export(pdt.DictOfLists())) == base.to_dict(as_series=False)
    ok = ok and (t >> export(pdt.ListOfDicts())) == base.to_dicts()
    ok = ok and (t >> export(pdt.Polars(lazy=True))).collect().to_dicts() == base.to_dicts()
    return ok
