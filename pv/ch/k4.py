"""K4: name-producing verbs with SYMBOLIC names: verbs.rename and the join suffix rule
(verbs.join) on the real code.  The outcome must be a well-formed table (visible names
pairwise distinct, count preserved, left names unchanged) or the documented ValueError -
never a silently lost column, an AssertionError or a KeyError."""

import polars as pl

import pydiverse.transform as pdt
from pydiverse.transform.extended import columns, inner_join, left_join, rename, select

_df = pl.DataFrame({"a": [1], "b": [2], "c": [3]})
_du = pl.DataFrame({"a": [1], "x": [2]})
_ID = "abcxu_1"


def _okname(n: str, lo=1, hi=3) -> bool:
    return lo <= len(n) <= hi and all(ch in _ID for ch in n)


def _wellformed(r, n) -> bool:
    names = r >> columns()
    return len(names) == n and len(set(names)) == n and [c.name for c in r] == names


def k4_rename_two(x: str, y: str) -> bool:
    """
    pre: _okname(x, 1, 2) and _okname(y, 1, 2)
    post: _
    """
    t = pdt.Table(_df, name="t")
    try:
        r = t >> rename({"a": x, "b": y})
    except ValueError:
        return True
    return _wellformed(r, 3) and (r >> columns()) == [x, y, "c"]


def k4_rename_two__reach(x: str, y: str) -> bool:
    """
    pre: _okname(x, 1, 2) and _okname(y, 1, 2)
    post: not _
    """
    t = pdt.Table(_df, name="t")
    try:
        r = t >> rename({"a": x, "b": y})
    except ValueError:
        return True
    return _wellformed(r, 3) and (r >> columns()) == [x, y, "c"]


def k4_join_names(l1: str, l2: str) -> bool:
    """
    pre: _okname(l1) and _okname(l2) and l1 != l2 and l1 != "a" and l2 != "a"
    post: _
    """
    t = pdt.Table(_df, name="t") >> rename({"b": l1, "c": l2})
    u = pdt.Table(_du, name="u")
    try:
        r = t >> inner_join(u, t.a == u.a)
    except ValueError:
        return False  # automatic suffixing must always find collision-free names
    names = r >> columns()
    return _wellformed(r, 5) and names[:3] == ["a", l1, l2]


def k4_join_names__reach(l1: str, l2: str) -> bool:
    """
    pre: _okname(l1) and _okname(l2) and l1 != l2 and l1 != "a" and l2 != "a"
    post: not _
    """
    t = pdt.Table(_df, name="t") >> rename({"b": l1, "c": l2})
    u = pdt.Table(_du, name="u")
    try:
        r = t >> inner_join(u, t.a == u.a)
    except ValueError:
        return False
    names = r >> columns()
    return _wellformed(r, 5) and names[:3] == ["a", l1, l2]


def k4_join_user_suffix(l1: str, sfx: str) -> bool:
    """
    pre: _okname(l1) and l1 not in ("a", "c") and _okname(sfx, 1, 2)
    post: _
    """
    t = pdt.Table(_df, name="t") >> rename({"b": l1})
    u = pdt.Table(_du, name="u")
    try:
        r = t >> left_join(u, t.a == u.a, suffix=sfx)
    except ValueError:
        # documented: a user suffix that collides is rejected
        return ("a" + sfx) in ("a", l1, "c") or ("x" + sfx) in ("a", l1, "c")
    names = r >> columns()
    return _wellformed(r, 5) and names == ["a", l1, "c", "a" + sfx, "x" + sfx]


def k4_join_user_suffix__reach(l1: str, sfx: str) -> bool:
    """
    pre: _okname(l1) and l1 not in ("a", "c") and _okname(sfx, 1, 2)
    post: not _
    """
    t = pdt.Table(_df, name="t") >> rename({"b": l1})
    u = pdt.Table(_du, name="u")
    try:
        r = t >> left_join(u, t.a == u.a, suffix=sfx)
    except ValueError:
        return ("a" + sfx) in ("a", l1, "c") or ("x" + sfx) in ("a", l1, "c")
    names = r >> columns()
    return _wellformed(r, 5) and names == ["a", l1, "c", "a" + sfx, "x" + sfx]
