from . import _e1check

PID, CORPUS = "C02", "pv.corpora.c02"


def run(tier, seed):
    # K1: LIMIT/OFFSET composition of chained slice_head for all non-negative ints (CrossHair)
    return _e1check.run(PID, CORPUS, tier, seed, crosshair=("k1",))


def replay(path):
    return _e1check.replay(PID, CORPUS, path)
