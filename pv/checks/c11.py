"""C11: table metadata agrees with the exported frame.
Part 1 (structural, no value quantifier): for every verb history of the corpora the
metadata accessors agree with the names and order of the compiled select list on both
backends.  Part 2 (solver): CrossHair explores the real Cache.update / verbs with
symbolic column names (pv/ch/k3.py)."""

from __future__ import annotations

import time

from .. import cli

PID, CORPUS = "C11", "pv.corpora.c11"


def run(tier, seed):
    from .. import e1

    t0 = time.time()
    orig = e1.Cfg.for_tier

    def for_tier(t, s=0):
        c = orig(t, s)
        c.structural_only = True
        c.validate_samples = 0
        return c

    e1.Cfg.for_tier = staticmethod(for_tier)
    try:
        cfg, tps, results, wall = cli.run_e1(PID, CORPUS, tier, seed)
    finally:
        e1.Cfg.for_tier = staticmethod(orig)
    coverage, viols, harness = cli.summarise_e1(PID, cfg, tps, results, wall)
    obls = [o for r in results for o in r["obligations"]]
    meta = [o for o in obls if o["kind"].startswith("metadata:")]
    distinct = len({(tuple(o["detail"]["meta"]["columns"]), o["kind"]) for o in meta if o.get("detail")})
    # only metadata / name obligations belong to this property
    viols = [(r, o) for r, o in viols if o["kind"].startswith(("metadata:", "names:polars=sqlite"))]
    v = cli.e1_violations(viols, PID)
    # part 2
    from ..ch import runner

    k3 = runner.run_harnesses("k3", tier, seed)
    v += k3["violations"]
    cov = {
        "evaluations": len(meta) + k3["paths_or_conditions"],
        "distinct_nontrivial": distinct + k3["confirmed"],
        "rule": "part 1: one evaluation per (verb history, backend): columns()/iter/len/in/dir/[] vs names+order of the compiled select list; distinct = distinct (column list, backend) pairs. part 2: CrossHair conditions over real Cache.update/verbs with symbolic column names (see crosshair)",
        "samples": [
            {"template": r["template"], "metadata": [o["detail"] for o in r["obligations"] if o["kind"].startswith("metadata:")][:1]}
            for r in results[:4]
        ],
        "structural_obligations": coverage["structural_obligations"],
        "structural_ok": coverage["structural_ok"],
        "programs": len(tps),
        "functions_encoded": coverage["functions_encoded"],
        "crosshair": k3["coverage"],
        "exhaustive": False,
    }
    return cli.emit(
        PID, tier, seed, "exploration", cov, v, time.time() - t0,
        [
            "no table value occurs in this property; part 1 is bounded enumeration of verb histories, part 2 lets the solver choose column names (strings) and selections",
            "names of the compiled select list are read from the compiled artefacts (plan JSON / SQL text) produced by the real backends",
        ] + k3["assumptions"],
        harness + k3["harness_faults"],
    )  # fmt: skip


def replay(path):
    from . import _e1check

    return _e1check.replay(PID, CORPUS, path)
