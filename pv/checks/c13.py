"""C13: overload resolution is total, deterministic and uniform - E3 (z3 over the type
tables read from the live code) + CrossHair kernels K5/K6."""

from __future__ import annotations

import multiprocessing as mp
import time

from .. import cli

PID = "C13"


def _worker(args):
    tier, seed, names = args
    from ..ty import e3

    return e3.run(tier, seed, only_ops=set(names))


def run(tier, seed):
    from ..ty import e3

    t0 = time.time()
    names = list(e3.operators())
    chunks = [names[i::16] for i in range(16)]
    with mp.get_context("fork").Pool(16) as pool:
        parts = pool.map(_worker, [(tier, seed, c) for c in chunks if c])
    violations, faults = [], []
    cov = None
    seen = set()
    for v, f, c, _ in parts:
        for x in v:
            if x["key"] not in seen:
                seen.add(x["key"])
                violations.append(x)
        faults += f
        if cov is None:
            cov = c
        else:
            for k in ("obligations", "discharged", "evaluations", "distinct_nontrivial", "operators", "real_calls_validation", "model_disagreements", "sat_replayed", "inconclusive"):
                cov[k] += c[k]
            cov["solver_seconds"] = round(cov["solver_seconds"] + c["solver_seconds"], 1)
            cov["samples"] = (cov["samples"] + c["samples"])[:10]
    from ..ch import runner

    k5 = runner.run_harnesses("k5", tier, seed)
    violations += k5["violations"]
    faults += k5["harness_faults"]
    cov["crosshair"] = k5["coverage"]
    cov["obligations"] += k5["paths_or_conditions"]
    cov["discharged"] += k5["confirmed"]
    cov["inconclusive"] += k5["inconclusive"]
    from ..ty import constness

    cv, cn = constness.run()
    violations += cv
    cov["constness_evaluations"] = cn
    cov["evaluations"] += cn
    level = "proof" if cov["obligations"] == cov["discharged"] else "other"
    return cli.emit(
        PID, tier, seed, "other", cov, violations, time.time() - t0,
        [
            "the type universe is finite and fixed (coverage.type_universe); parameterised families beyond the listed instances are covered only by the CrossHair kernel K6 within its bounds",
            "const-ness of typed constants (lit(v, T), lit(v).cast(T)) and their acceptance in const-declared parameters is code outside the signature matcher: evaluated on the real ColFn(...).dtype() over operator x const position x constant form (pv/ty/constness.py), not solver-decided",
            "z3 decides each obligation for all argument tuples over tables obtained by calling the real converts_to / conversion_cost / implicit_conversions; the trie matching rule is a reference model validated exhaustively on all unary and binary tuples against the real code",
        ] + k5["assumptions"],
        faults,
    )  # fmt: skip


def replay(path):
    import json

    rec = json.load(open(path))
    pl = rec["payload"]
    if "harness" in pl:
        from ..ch import runner

        return runner.replay_violation(path)
    if "op" not in pl:
        # const-ness evaluation (pv/ty/constness.py): deterministic, re-evaluate all of them
        from ..ty import constness

        viol, _ = constness.run()
        hit = [v for v in viol if v["key"] == rec.get("key")]
        print(rec.get("key"), "->", hit[0]["what"] if hit else "not reproduced")
        return 1 if hit else 0
    from ..ty import e3

    tb = e3.Tables()
    op = e3.operators()[pl["op"]]
    sig = [tb.U[tb.idx[s]] for s in pl["sig"]]
    print(pl["op"], pl["sig"], "->", e3.real_return(op, sig))
    return 1
