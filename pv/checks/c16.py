from . import _e1check

PID, CORPUS = "C16", "pv.corpora.c16"


def _extra(cfg):
    from ..corpora import c16 as C

    v, n = _e1check.rejection_clauses(C.rejections(), "c16")
    return v, n, {"rejection_clauses_checked": n}


def run(tier, seed):
    return _e1check.run(PID, CORPUS, tier, seed, extra=_extra)


def replay(path):
    return _e1check.replay(PID, CORPUS, path)
