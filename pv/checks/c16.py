from . import _e1check

PID, CORPUS = "C16", "pv.corpora.c16"


def run(tier, seed):
    return _e1check.run(PID, CORPUS, tier, seed)


def replay(path):
    return _e1check.replay(PID, CORPUS, path)
