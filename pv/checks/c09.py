"""C09: probe templates (E1) + rejection clauses evaluated on the real library."""

from __future__ import annotations

import time

from .. import cli
from . import _e1check

PID, CORPUS = "C09", "pv.corpora.c09"


def rejection_clauses():
    from .. import real as RL
    from .. import ref as R
    from ..corpora import c09 as C
    from ..e1 import Cfg, make_inputs, Template

    viol, n = [], 0
    for name, sources, prog, exc in C.rejections():
        frames = {nm: RL.dummy_frame(schema, k) for k, (nm, schema) in enumerate(sources)}
        for be in ("polars", "sqlite"):
            n += 1
            tbls = RL.polars_tables(sources, frames) if be == "polars" else RL.sqlite_tables(sources, RL.sqlite_engine(sources, frames))
            got = "accepted"
            try:
                prog(RL.RealAPI, *tbls)
            except Exception as e:  # noqa: BLE001
                got = type(e).__name__
            ok = got == exc or (exc == "ColumnNotFoundError" and got == "ColumnNotFoundError")
            if not ok:
                viol.append({"key": f"c09.reject.{name}.{be}", "what": f"expected {exc}, got {got}", "payload": {"clause": name, "backend": be}})
        # REF must refuse the same program (independent reading of the documentation)
        n += 1
        tp = Template("x", sources, prog)
        syms = make_inputs(tp, Cfg())
        w = R.World()
        try:
            prog(R.RefAPI, *[R.RTable.source(w, nm, syms[nm]) for nm, _ in sources])
            viol.append({"key": f"c09.reject.{name}.ref", "what": "REF accepts a reference the documentation calls invalid (harness inconsistency)", "payload": {}})
        except R.RefError:
            pass
    return viol, n


def run(tier, seed):
    t0 = time.time()
    cfg, tps, results, wall = cli.run_e1(PID, CORPUS, tier, seed)
    coverage, viols, harness = cli.summarise_e1(PID, cfg, tps, results, wall)
    coverage["corpus"] = CORPUS
    v2, n = rejection_clauses()
    coverage["rejection_clauses_checked"] = n
    coverage["structural_obligations"] += n
    return cli.emit(
        PID, tier, seed, "translation_validation", coverage, cli.e1_violations(viols, PID) + v2, time.time() - t0,
        list(cli.E1_ASSUMPTIONS) + ["rejection clauses and derived[ref].name have no value quantifier: evaluated per template on the real library and compared with REF"], harness,
    )  # fmt: skip


def replay(path):
    return _e1check.replay(PID, CORPUS, path)
