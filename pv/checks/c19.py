"""C19: every accepted pipeline compiles on every SQL dialect; every accepted operator
overload has an implementation or NotSupportedError on every backend.

[S] O5: for every backend class, z3 decides over ALL argument-type tuples that the
implementation tries of the class and its bases are never ambiguous for a signature the
type checker accepts (that is when the internal assertion of best_signature_match would
fire inside get_impl); witnesses are replayed on the real `B.get_impl`.  Exhaustively for
arity <= 2 the real get_impl is called for every accepted signature, and the selected
implementation is applied to dummy arguments and must return a value.
[S] K2: CrossHair on the integer-parameter implementations (`shift` direction / offset,
`round` with negative digits).
[P] every template of the corpora is built against offline PostgreSQL / SQL Server / SQLite
engines: build_query returns one SELECT or raises NotSupportedError / SubqueryError, and the
same text on a second call."""

from __future__ import annotations

import dataclasses
import importlib
import itertools
import multiprocessing as mp
import time
import types as pytypes

from .. import cli

PID = "C19"
BORROW = ["pv.corpora.c19x", "pv.corpora.c02", "pv.corpora.c03", "pv.corpora.c04", "pv.corpora.c05", "pv.corpora.c06", "pv.corpora.c07", "pv.corpora.c08", "pv.corpora.c17", "pv.corpora.c18"]


def fake_dbapi(name):
    m = pytypes.ModuleType(name)
    m.paramstyle = "format"
    m.apilevel = "2.0"
    m.threadsafety = 1
    m.Error = type("Error", (Exception,), {})
    m.version = "1.30.0"
    m.__version__ = "1.30.0"
    m.Binary = bytes
    m.Cursor = type("Cursor", (), {})
    m.Connection = type("Connection", (), {})
    m.SQL_VARCHAR, m.SQL_WVARCHAR, m.SQL_DECIMAL = 12, -9, 3
    return m


def engines():
    import sqlalchemy as sqa

    out = {"sqlite": sqa.create_engine("sqlite://")}
    try:
        out["postgresql"] = sqa.create_engine("postgresql+pg8000://u:p@localhost/db", module=fake_dbapi("pg8000"))
    except Exception as e:  # noqa: BLE001
        out["postgresql"] = e
    try:
        out["mssql"] = sqa.create_engine("mssql+pyodbc://u:p@dsn", module=fake_dbapi("pyodbc"))
    except Exception as e:  # noqa: BLE001
        out["mssql"] = e
    return out


def dialect_tables(sources, eng):
    import sqlalchemy as sqa

    import pydiverse.transform as pdt

    from .. import real as RL

    md = sqa.MetaData()
    tbls = []
    for name, schema in sources:
        t = sqa.Table(name, md, *[sqa.Column(c, RL.SQA_TY[ty]) for c, ty in schema.items()])
        tbls.append(pdt.Table(t, pdt.SqlAlchemy(eng)))
    return tbls


def _compile_worker(args):
    modname, idx, tier, seed = args
    from pydiverse.transform._internal.errors import NotSupportedError, SubqueryError

    from .. import real as RL
    from ..e1 import Cfg

    mod = importlib.import_module(modname)
    cfg = Cfg.for_tier(tier, seed)
    tp = mod.templates(cfg)[idx]
    res = {"template": tp.name, "dialects": {}, "sql": {}}
    for dname, eng in engines().items():
        if isinstance(eng, Exception):
            res["dialects"][dname] = f"engine-unavailable:{type(eng).__name__}"
            continue
        try:
            out = tp.prog(RL.RealAPI, *dialect_tables(tp.sources, eng))
            if isinstance(out, tuple):
                out = out[0]
            q1 = RL.sql_text(out)
            q2 = RL.sql_text(out)
            if q1 is not None and q1 == q2 and "(SELECT" in q1:
                # every build compiles a fresh clone (new UUIDs): an order taken from a set of UUIDs
                # shows only in some builds, and only where a subquery selects several columns
                for _ in range(6):
                    q2 = RL.sql_text(out)
                    if q2 != q1:
                        break
            if q1 is None:
                res["dialects"][dname] = "no-sql"  # passed through collect()
                continue
            ok = q1 == q2 and q1.lstrip().upper().startswith(("SELECT", "WITH")) and ";" not in _strip_literals(q1)
            res["dialects"][dname] = "ok" if ok else ("nondeterministic" if q1 != q2 else "not-one-select")
            res["sql"][dname] = q1[:400]
        except (NotSupportedError, SubqueryError) as e:
            res["dialects"][dname] = f"refused:{type(e).__name__}"
        except Exception as e:  # noqa: BLE001
            res["dialects"][dname] = f"error:{type(e).__name__}:{str(e)[:160]}"
    return res


def _strip_literals(sql):
    import re

    return re.sub(r"'(?:[^']|'')*'", "''", sql)


def compile_matrix(tier, seed):
    from ..corpora.common import rotated
    from ..e1 import Cfg

    cfg = Cfg.for_tier(tier, seed)
    jobs = []
    for m in BORROW:
        mod = importlib.import_module(m)
        n = len(mod.templates(cfg))
        idxs = list(range(n))
        if tier == "quick":
            idxs = rotated(idxs, 45, seed)
        jobs += [(m, i, tier, seed) for i in idxs]
    with mp.get_context("fork").Pool(16, maxtasksperchild=20) as pool:
        results = pool.map(_compile_worker, jobs, chunksize=2)
    viol = []
    for r in results:
        for d, st in r["dialects"].items():
            if st.startswith(("error:", "nondeterministic", "not-one-select")):
                viol.append({"key": f"c19.compile.{d}.{r['template']}", "what": st, "payload": {"template": r["template"], "dialect": d, "sql": r["sql"].get(d)}})
    return results, viol


def _impl_worker(args):
    tier, seed, names = args
    return impl_lookup(tier, seed, set(names))


def backends():
    from pydiverse.transform._internal.backend.mssql import MsSqlImpl
    from pydiverse.transform._internal.backend.polars import PolarsImpl
    from pydiverse.transform._internal.backend.postgres import PostgresImpl
    from pydiverse.transform._internal.backend.sqlite import SqliteImpl

    out = {"polars": PolarsImpl, "sqlite": SqliteImpl, "postgres": PostgresImpl, "mssql": MsSqlImpl}
    for mod, cls in (("duckdb", "DuckDbImpl"), ("ibm_db2", "IbmDb2Impl")):
        try:
            m = importlib.import_module(f"pydiverse.transform._internal.backend.{mod}")
            out[mod] = getattr(m, cls)
        except Exception:  # noqa: BLE001
            pass
    return out


def dummy_args(sig, backend_name, T):
    """arguments for an implementation: columns for column parameters, python values for const ones"""
    import polars as pl
    import sqlalchemy as sqa

    from pydiverse.common import Bool, Date, Datetime, Duration, String, Time

    out = []
    for k, t in enumerate(sig):
        b = T.without_const(t)
        if backend_name == "polars":
            if T.is_const(t):
                v = 1 if b.is_int() else 1.5 if b.is_float() else True if b == Bool() else "a" if isinstance(b, String) else None
                out.append(pl.lit(v))
            else:
                out.append(pl.col(f"c{k}"))
        else:
            try:
                sty = b.to_sql()
            except Exception:  # noqa: BLE001
                sty = sqa.String()
            out.append(sqa.column(f"c{k}", sty))
    return out


def impl_lookup(tier, seed, only_ops):
    import z3

    from pydiverse.transform._internal.errors import NotSupportedError

    from ..ty import e3

    tb = e3.Tables()
    sm = e3.SymMatcher(tb)
    T = tb.T
    U = tb.U
    n = len(U)
    ops = {k: v for k, v in e3.operators().items() if k in only_ops}
    bks = backends()
    viol, stats, samples = [], {"queries": 0, "unsat": 0, "sat": 0, "unknown": 0, "real_get_impl_calls": 0, "impl_applied": 0, "solver_seconds": 0.0}, []
    S = z3.Solver()
    S.set("timeout", 60000)
    for c in sm.defs:
        S.add(c)

    def solve(cons):
        S.push()
        for c in cons:
            S.add(c)
        t1 = time.time()
        r = str(S.check())
        mdl = S.model() if r == "sat" else None
        S.pop()
        stats["queries"] += 1
        stats["solver_seconds"] += time.time() - t1
        stats[r if r in ("sat", "unsat") else "unknown"] += 1
        return r, mdl

    def real_get_impl(B, op, sig):
        try:
            f = B.get_impl(op, tuple(sig))
            return ("impl", f)
        except NotSupportedError:
            return ("not-supported", None)
        except Exception as e:  # noqa: BLE001
            return ("internal", f"{type(e).__name__}: {str(e)[:100]}")

    for name, op in ops.items():
        for k in e3.arities(op):
            if k == 0:
                for bname, B in bks.items():
                    r = real_get_impl(B, op, [])
                    stats["real_get_impl_calls"] += 1
                    if r[0] == "internal":
                        viol.append({"key": f"c19.impl.{bname}.{name}()", "what": r[1], "payload": {}})
                continue
            args, acons = sm.args(k)
            op_matches = sm.matches(op.trie.root, args)
            accepted = z3.Or([c for c, _, _ in op_matches] + [z3.BoolVal(False)])
            for bname, B in bks.items():
                # the lookup walks the class and its bases; each store's trie must be unambiguous
                cls = B
                while True:
                    trie = cls.impl_store.impl_trie.get(op)
                    if trie is not None:
                        cands = []
                        for cond, msig, data in sm.matches(trie.root, args):
                            d1, d2 = sm.dist(args, msig)
                            cands.append((cond, d1, d2))
                        if len(cands) > 1:
                            B1, B2 = z3.Int("B1"), z3.Int("B2")
                            side = [z3.Implies(m, e3.lex_le((B1, B2), (d1, d2))) for m, d1, d2 in cands]
                            anym = z3.Or([m for m, _, _ in cands])
                            side.append(z3.Implies(anym, z3.Or([z3.And(m, d1 == B1, d2 == B2) for m, d1, d2 in cands])))
                            cnt = z3.Sum([z3.If(z3.And(m, d1 == B1, d2 == B2), 1, 0) for m, d1, d2 in cands])
                            r, mdl = solve(acons + side + [accepted, anym, cnt >= 2])
                            if r == "sat":
                                sig = [U[mdl.eval(a, model_completion=True).as_long()] for a in args]
                                rr = real_get_impl(B, op, sig)
                                if rr[0] == "internal":
                                    viol.append({"key": f"c19.impl.{bname}.{name}({', '.join(map(repr, sig))})", "what": f"implementation lookup fails with an internal error: {rr[1]}", "payload": {"backend": bname, "op": name, "sig": [repr(s) for s in sig]}})
                            if len(samples) < 6:
                                samples.append({"backend": cls.__name__, "operator": name, "arity": k, "impl_overloads": len(cands), "ambiguity_query": r})
                    if cls.__name__ == "TableImpl":
                        break
                    cls = cls.__bases__[0]
            # exhaustive real lookups for arity <= 2
            if k <= 2:
                for tup in itertools.product(range(n), repeat=k):
                    sig = [U[i] for i in tup]
                    if e3.real_return(op, sig)[0] != "ok":
                        continue
                    for bname, B in bks.items():
                        stats["real_get_impl_calls"] += 1
                        rr = real_get_impl(B, op, sig)
                        if rr[0] == "internal":
                            if "NullType" in repr(sig):
                                continue  # F20 (C13): null-typed arguments are ambiguous already at type checking
                            viol.append({"key": f"c19.impl.{bname}.{name}({', '.join(map(repr, sig))})", "what": f"implementation lookup fails with an internal error: {rr[1]}", "payload": {"backend": bname, "op": name, "sig": [repr(s) for s in sig]}})
                        elif rr[0] == "impl" and all(not T.is_const(s) for s in sig) and "NullType" not in repr(sig) and "List" not in repr(sig):
                            # the implementation must return a value (not None) on column arguments
                            try:
                                val = rr[1](*dummy_args(sig, bname, T), _Impl=B, _partition_by=None, _sig=tuple(sig), _empty_group_by=False)
                            except NotSupportedError:
                                continue
                            except Exception:  # noqa: BLE001
                                continue  # argument-shape problems of the dummy call are not findings
                            stats["impl_applied"] += 1
                            if val is None:
                                viol.append({"key": f"c19.implnone.{bname}.{name}", "what": f"implementation of {name} on {bname} returns None for {[repr(s) for s in sig]} (missing return)", "payload": {"backend": bname, "op": name}})
    return viol, stats, samples


def run(tier, seed):
    from ..ch import runner
    from ..ty import e3

    t0 = time.time()
    results, v = compile_matrix(tier, seed)
    names = list(e3.operators())
    chunks = [names[i::16] for i in range(16)]
    with mp.get_context("fork").Pool(16) as pool:
        parts = pool.map(_impl_worker, [(tier, seed, c) for c in chunks if c])
    stats = {}
    samples = []
    seen = set()
    for vv, st, sm_ in parts:
        for x in vv:
            if x["key"] not in seen:
                seen.add(x["key"])
                v.append(x)
        for k, val in st.items():
            stats[k] = stats.get(k, 0) + val
        samples += sm_
    k2 = runner.run_harnesses("k2", tier, seed)
    v += k2["violations"]
    dial = {}
    for r in results:
        for d, st in r["dialects"].items():
            key = st.split(":")[0] + (":" + st.split(":")[1] if st.startswith("refused") else "")
            dial.setdefault(d, {}).setdefault(key, 0)
            dial[d][key] += 1
    cov = {
        "explanation": "O5: z3 over the implementation tries of every backend class for all accepted argument-type tuples (ambiguity = internal assertion in get_impl), exhaustive real get_impl calls for arity <= 2 with the selected implementation applied to dummy column arguments (must return a value); K2: CrossHair on integer-parameter implementations; [P]: build_query of corpus templates on offline PostgreSQL / SQL Server / SQLite engines (one SELECT or NotSupportedError/SubqueryError, identical text on a second build). The meaning of non-SQLite SQL is not modelled.",
        "evaluations": len(results) * 3 + stats.get("real_get_impl_calls", 0) + stats.get("queries", 0),
        "distinct_nontrivial": len(results) + stats.get("queries", 0),
        "samples": samples[:6] + [{"template": r["template"], "dialects": r["dialects"]} for r in results[:4]],
        "obligations": stats.get("queries", 0) + k2["paths_or_conditions"],
        "discharged": stats.get("unsat", 0) + k2["confirmed"],
        "solver": stats,
        "templates_compiled": len(results),
        "dialect_outcomes": dial,
        "backends": list(backends()),
        "crosshair": k2["coverage"],
        "exhaustive": False,
    }
    return cli.emit(
        PID, tier, seed, "other", cov, v, time.time() - t0,
        [
            "PostgreSQL and SQL Server engines are offline (stub DBAPI modules, sqa.Table objects instead of reflection): SQL is generated, never executed; DuckDB / DB2 are included only if their modules import",
            "the symbolic trie matcher is the one validated in C13",
        ] + k2["assumptions"],
        k2["harness_faults"],
    )  # fmt: skip


def replay(path):
    import json

    rec = json.load(open(path))
    if "harness" in rec.get("payload", {}):
        from ..ch import runner

        return runner.replay_violation(path)
    print("re-run ./check C19 to reproduce:", rec["key"], rec["what"])
    return 1
