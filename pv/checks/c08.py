"""C08 = [S] equivalence of every accepted SQL pipeline (E1 corpus) + [P] acceptance
clauses evaluated on the real library:
  (a) Polars-backed tables never raise SubqueryError
  (b) inserting alias() directly before the verb that raised SubqueryError makes that verb accepted
  (c) pipelines made only of element-wise mutate/filter, select, rename, arrange, one grouped
      summarize and a final slice_head never raise it."""

from __future__ import annotations

import itertools
import time

from .. import cli
from . import _e1check

PID, CORPUS = "C08", "pv.corpora.c08"


def acceptance(cfg):
    from pydiverse.transform._internal.errors import SubqueryError

    from .. import real as RL
    from ..corpora import c08 as C

    frames = {name: RL.dummy_frame(schema, k) for k, (name, schema) in enumerate(C.SRC)}
    viol, n_checked, samples = [], 0, []

    def stepwise(seq, mask, backend):
        """returns index of the first verb raising SubqueryError (None if none)"""
        if backend == "polars":
            t, u = RL.polars_tables(C.SRC, frames)
        else:
            t, u = RL.sqlite_tables(C.SRC, RL.sqlite_engine(C.SRC, frames))
        cur = t
        for i, k in enumerate(seq):
            if mask[i]:
                cur = C.ALIAS(RL.RealAPI, cur, u)
            try:
                cur = C.STEPS[k](RL.RealAPI, cur, u)
            except SubqueryError:
                return i
        return None

    seqs = []
    L = 3 if cfg.tier == "quick" else 4
    for n in range(1, L + 1):
        for seq in itertools.product(C.KINDS, repeat=n):
            if seq.count("J") + seq.count("K") + seq.count("Q") <= 1:
                seqs.append(seq)
    for seq in seqs:
        base = tuple([False] * len(seq))
        # (a)
        n_checked += 1
        try:
            r = stepwise(seq, base, "polars")
        except Exception as e:  # noqa: BLE001
            r = f"{type(e).__name__}: {e}"
        if r is not None:
            viol.append({"key": f"c08.accept.polars.{''.join(seq)}", "what": f"Polars-backed pipeline {seq} raised at step {r}", "payload": {"seq": seq}})
        # (b): repair loop
        mask = list(base)
        for _ in range(len(seq) + 1):
            n_checked += 1
            try:
                i = stepwise(seq, mask, "sqlite")
            except Exception as e:  # noqa: BLE001
                viol.append({"key": f"c08.accept.sqlite-error.{C.seq_name(seq, mask)}", "what": f"{type(e).__name__}: {str(e)[:200]}", "payload": {"seq": seq, "mask": mask}})
                break
            if i is None:
                break
            if seq[i] == "K":
                break  # the reason lies in the RIGHT input of the join: alias() belongs there, not before the verb
            if mask[i]:
                viol.append({"key": f"c08.accept.alias-does-not-help.{C.seq_name(seq, mask)}", "what": f"verb {i} ({seq[i]}) still raises SubqueryError with alias() directly before it", "payload": {"seq": seq, "mask": mask}})
                break
            mask[i] = True
        if len(samples) < 5 and any(mask):
            samples.append({"sequence": "".join(seq), "alias_needed_before": [i for i, m in enumerate(mask) if m]})
    # (b') the same for a table object that is the start of several pipelines: a repair found for
    # the first must not spoil the second (the search for an alias must not modify shared nodes)
    for k1, k2 in itertools.product(("F", "S", "U", "W", "J"), repeat=2):
        n_checked += 1
        try:
            t, u = RL.sqlite_tables(C.SRC, RL.sqlite_engine(C.SRC, frames))
            base = C.STEPS["W"](RL.RealAPI, t, u)
            base = C.ALIAS(RL.RealAPI, base, u)
            base = C.STEPS["P"](RL.RealAPI, base, u)
            C.STEPS[k1](RL.RealAPI, base, u)
            C.STEPS[k2](RL.RealAPI, base, u)
        except SubqueryError:
            viol.append({"key": f"c08.accept.reused-base.{k1}{k2}", "what": f"a table ending in alias() >> select, reused as the start of two pipelines ({k1}, then {k2}), raises SubqueryError although alias() precedes the verb", "payload": {}})
        except Exception as e:  # noqa: BLE001
            viol.append({"key": f"c08.accept.reused-base-error.{k1}{k2}", "what": f"{type(e).__name__}: {str(e)[:200]}", "payload": {}})
    # (c)
    never = []
    for n in range(1, 4):
        for seq in itertools.product(C.NEVER_NEED, repeat=n):
            for with_s in (None, 0, n):  # position of the single summarize
                for with_l in (False, True):
                    full = list(seq)
                    if with_s is not None:
                        full.insert(with_s, "S")
                    if with_l:
                        full.append("L")
                    never.append(tuple(full))
    for seq in never:
        n_checked += 1
        try:
            i = stepwise(seq, tuple([False] * len(seq)), "sqlite")
        except Exception as e:  # noqa: BLE001
            i = f"{type(e).__name__}: {e}"
        if i is not None:
            viol.append({"key": f"c08.accept.never-need.{''.join(seq)}", "what": f"pipeline {seq} of the never-needs-a-subquery class raised at {i}", "payload": {"seq": seq}})
    return viol, n_checked, samples


def run(tier, seed):
    t0 = time.time()
    cfg, tps, results, wall = cli.run_e1(PID, CORPUS, tier, seed)
    coverage, viols, harness = cli.summarise_e1(PID, cfg, tps, results, wall)
    coverage["corpus"] = CORPUS
    from ..ch import runner

    k1 = runner.run_harnesses("k1", tier, seed)
    v_k1 = k1["violations"]
    harness = list(harness) + k1["harness_faults"]
    coverage["crosshair"] = [k1["coverage"]]
    coverage["obligations"] += k1["paths_or_conditions"]
    coverage["discharged"] += k1["confirmed"]
    v2, n_checked, samples = acceptance(cfg)
    v2 = v2 + v_k1
    coverage["acceptance_clauses_checked"] = n_checked
    coverage["acceptance_samples"] = samples
    coverage["structural_obligations"] += n_checked
    return cli.emit(
        PID, tier, seed, "translation_validation", coverage, cli.e1_violations(viols, PID) + v2, time.time() - t0,
        list(cli.E1_ASSUMPTIONS) + ["acceptance clauses (exception behaviour) have no value quantifier: they are evaluated per enumerated verb-kind sequence on the real library"], harness,
    )  # fmt: skip


def replay(path):
    return _e1check.replay(PID, CORPUS, path)
