"""C14: ill-formed pipelines are rejected when built, with the documented error.

Quantifier = the program only.  Solver part: K4 (CrossHair, symbolic names through the real
rename / join suffix code).  [P] part: every rejection rule x syntactic position x preceding
history, on Polars- and SQLite-backed tables: exception type, identical on both backends,
input table still usable.  Converse: every template of the E1 corpora that the verbs accept
must compile on Polars (checked in the E1 checks as `build:polars`) - here the accepted
twins of each rule are exported on Polars with data."""

from __future__ import annotations

import time
import traceback

from .. import cli

PID = "C14"


def histories(p):
    """(name, fn(t, u) -> table) : preceding verb histories; columns a(int) b(int) s(str) p(bool) g(int) stay available by name"""
    return [
        ("plain", lambda t, u: t),
        ("mutate", lambda t, u: t >> p.mutate(a=t.a + 1, z=t.b)),
        ("rename", lambda t, u: t >> p.rename({"a": "k"}) >> p.mutate(a=p.C.k)),
        ("filter", lambda t, u: t >> p.filter(t.a > 0) >> p.select(t.g, t.s, t.p, t.b, t.a)),
        ("alias", lambda t, u: t >> p.mutate(z=t.a) >> p.alias("al")),
        ("join", lambda t, u: t >> p.left_join(u, t.a == u.k)),
    ]


def rules(p):
    """(rule, expected exception name, fn(x) -> table) where x is the table after the history;
    offending constructs use C.-references so that they work after every history"""
    C = p.C
    win = lambda: p.row_number(arrange=[C.a])  # noqa: E731
    agg = lambda: C.b.sum()  # noqa: E731
    R = []

    def positions(rule, exc, bad_bool, bad_val=None, verbs=("mutate",)):
        """bad_bool(): offending boolean expr factory; bad_val(): offending value expr factory"""
        if bad_val is not None:
            R.append((f"{rule}.top", exc, lambda x: x >> p.mutate(y=bad_val())))
            R.append((f"{rule}.nested_arith", exc, lambda x: x >> p.mutate(y=(bad_val() + 1) * 2)))
            R.append((f"{rule}.case_branch", exc, lambda x: x >> p.mutate(y=p.when(C.a > 0).then(bad_val()).otherwise(0))))
            R.append((f"{rule}.case_cond", exc, lambda x: x >> p.mutate(y=p.when(bad_val() > 0).then(1).otherwise(0))))
        if bad_bool is not None:
            R.append((f"{rule}.filter_top", exc, lambda x: x >> p.filter(bad_bool())))
            R.append((f"{rule}.filter_nested", exc, lambda x: x >> p.filter((C.a > 0) & ~bad_bool())))

    # 1. type errors in expressions
    positions("type_error.int_plus_str", "DataTypeError", lambda: (C.a + C.s) > 0, lambda: C.a + C.s)
    positions("type_error.bool_and_int", "DataTypeError", lambda: C.p & C.a, None)
    positions("type_error.str_fn_on_int", "DataTypeError", None, lambda: C.a.str.len())
    positions("type_error.cmp_str_int", "DataTypeError", lambda: C.s < C.a, None)
    R.append(("type_error.in_arrange", "DataTypeError", lambda x: x >> p.arrange((C.a + C.s).nulls_last())))
    R.append(("type_error.in_partition_by", "DataTypeError", lambda x: x >> p.mutate(y=C.b.sum(partition_by=C.a + C.s))))
    R.append(("type_error.in_summarize", "DataTypeError", lambda x: x >> p.group_by(C.g) >> p.summarize(y=(C.a + C.s).max())))
    R.append(("type_error.cast_invalid", "DataTypeError", lambda x: x >> p.mutate(y=C.p.cast(p.String()))))
    # 2. non-boolean predicates
    R.append(("nonbool.filter_int", "DataTypeError", lambda x: x >> p.filter(C.a)))
    R.append(("nonbool.filter_expr", "DataTypeError", lambda x: x >> p.filter(C.a + 1)))
    R.append(("nonbool.filter_second", "DataTypeError", lambda x: x >> p.filter(C.a > 0, C.s)))
    # 2b. non-boolean `when` conditions, also when the condition is a C.-column (its type is
    # unknown while the case expression is built) and in the filter= context argument
    R.append(("nonbool.when_C_int", "DataTypeError", lambda x: x >> p.mutate(y=p.when(C.a).then(1).otherwise(2))))
    R.append(("nonbool.when_C_str", "DataTypeError", lambda x: x >> p.mutate(y=p.when(C.s).then(1).otherwise(2))))
    R.append(("nonbool.when_C_nested_arith", "DataTypeError", lambda x: x >> p.mutate(y=p.when(C.a).then(1).otherwise(2) + 1)))
    R.append(("nonbool.when_C_in_filter", "DataTypeError", lambda x: x >> p.filter(p.when(C.a).then(True).otherwise(False))))
    R.append(("nonbool.when_C_in_summarize", "DataTypeError", lambda x: x >> p.group_by(C.g) >> p.summarize(y=p.when(C.a.max()).then(1).otherwise(2))))
    R.append(("nonbool.when_second_cond", "DataTypeError", lambda x: x >> p.mutate(y=p.when(C.a > 0).then(1).when(C.b).then(2).otherwise(3))))
    R.append(("nonbool.when_expr", "DataTypeError", lambda x: x >> p.mutate(y=p.when(C.a + 1).then(1).otherwise(2))))
    R.append(("nonbool.agg_filter_C", "DataTypeError", lambda x: x >> p.mutate(y=C.b.sum(filter=C.a))))
    R.append(("nonbool.agg_filter_summarize", "DataTypeError", lambda x: x >> p.group_by(C.g) >> p.summarize(y=C.b.sum(filter=C.s))))
    # 2c. incompatible branch values of a case expression, also when only the default is a constant
    R.append(("type_error.case_branches", "DataTypeError", lambda x: x >> p.mutate(y=p.when(C.a > 0).then(C.a).otherwise(C.s))))
    R.append(("type_error.case_default_lit", "DataTypeError", lambda x: x >> p.mutate(y=p.when(C.a > 0).then(C.a).otherwise("x"))))
    R.append(("type_error.case_then_lit", "DataTypeError", lambda x: x >> p.mutate(y=p.when(C.a > 0).then("x").otherwise(C.a))))
    R.append(("type_error.case_lits", "DataTypeError", lambda x: x >> p.mutate(y=p.when(C.a > 0).then(1).otherwise("x"))))
    # 3. window / aggregate functions where they are forbidden
    R.append(("window.in_filter", "FunctionTypeError", lambda x: x >> p.filter(win() > 1)))
    R.append(("window.in_filter_nested", "FunctionTypeError", lambda x: x >> p.filter((C.a > 0) & (C.b.shift(1, arrange=[C.a]) > 0))))
    R.append(("aggregate.in_filter", "FunctionTypeError", lambda x: x >> p.filter(C.b > agg())))
    R.append(("window.in_summarize", "FunctionTypeError", lambda x: x >> p.group_by(C.g) >> p.summarize(y=win())))
    R.append(("window.in_summarize_nested", "FunctionTypeError", lambda x: x >> p.group_by(C.g) >> p.summarize(y=C.b.max() + win())))
    # an aggregate with partition_by= is a window function: it does not aggregate for summarize
    R.append(("window.partitioned_agg_in_summarize", "FunctionTypeError", lambda x: x >> p.group_by(C.g) >> p.summarize(y=C.b.sum(partition_by=C.a))))
    # ... also when its operand is a grouping column, which passes the "neither aggregated nor grouping" rule (F71)
    R.append(("window.partitioned_agg_of_key_in_summarize", "FunctionTypeError", lambda x: x >> p.group_by(C.g) >> p.summarize(y=C.g.sum(partition_by=C.g))))
    R.append(("window.partitioned_count_star_in_summarize", "FunctionTypeError", lambda x: x >> p.group_by(C.g) >> p.summarize(y=p.count(partition_by=C.g))))
    R.append(("window.partitioned_agg_in_summarize_ungrouped", "FunctionTypeError", lambda x: x >> p.summarize(y=C.b.max(partition_by=C.g))))
    R.append(("window.partitioned_agg_in_summarize_nested", "FunctionTypeError", lambda x: x >> p.group_by(C.g) >> p.summarize(y=C.b.min() + C.b.sum(partition_by=C.a))))
    R.append(("window.partitioned_agg_in_summarize_case", "FunctionTypeError", lambda x: x >> p.group_by(C.g) >> p.summarize(y=p.when(C.b.max() > 0).then(C.b.sum(partition_by=C.a)).otherwise(0))))
    # 4. nested aggregate / window functions
    R.append(("nested.agg_in_agg", "FunctionTypeError", lambda x: x >> p.mutate(y=(C.b - C.b.mean()).sum())))
    R.append(("nested.window_in_agg", "FunctionTypeError", lambda x: x >> p.mutate(y=C.b.shift(1, arrange=[C.a]).sum())))
    R.append(("nested.agg_in_window", "FunctionTypeError", lambda x: x >> p.mutate(y=C.b.sum().shift(1, arrange=[C.a]))))
    R.append(("nested.in_arrange_kwarg", "FunctionTypeError", lambda x: x >> p.mutate(y=C.b.shift(1, arrange=[C.a.cum_sum(arrange=[C.b])]))))
    R.append(("nested.in_partition_kwarg", "FunctionTypeError", lambda x: x >> p.mutate(y=C.b.sum(partition_by=C.a.max()))))
    R.append(("nested.in_case", "FunctionTypeError", lambda x: x >> p.mutate(y=p.when(C.a > 0).then(C.b.sum()).otherwise(0).max())))
    R.append(("nested.summarize_agg_in_agg", "FunctionTypeError", lambda x: x >> p.group_by(C.g) >> p.summarize(y=(C.b.max() + 1).sum())))
    # 5. non-aggregated, non-grouping column in summarize
    R.append(("summarize.bare_column", "FunctionTypeError", lambda x: x >> p.group_by(C.g) >> p.summarize(y=C.b)))
    R.append(("summarize.bare_in_expr", "FunctionTypeError", lambda x: x >> p.group_by(C.g) >> p.summarize(y=C.b.max() + C.a)))
    R.append(("summarize.bare_in_case", "FunctionTypeError", lambda x: x >> p.group_by(C.g) >> p.summarize(y=p.when(C.a > 0).then(C.b.max()).otherwise(0))))
    R.append(("summarize.bare_ungrouped", "FunctionTypeError", lambda x: x >> p.summarize(y=C.b.max() - C.b)))
    # 5b. a grouping column that is no longer selected when summarize is applied
    R.append(("summarize.hidden_group_key_dropped", "ValueError", lambda x: x >> p.group_by(C.g) >> p.drop(C.g) >> p.summarize(n=p.count())))
    R.append(("summarize.hidden_group_key_overwritten", "ValueError", lambda x: (lambda d: d >> p.group_by(d.g) >> p.mutate(g=C.b) >> p.summarize(n=p.count()))(x)))
    R.append(("summarize.hidden_group_key_selected_away", "ValueError", lambda x: x >> p.group_by(C.g) >> p.select(C.b, C.a) >> p.summarize(m=C.b.max())))
    # 6. unknown / re-selected hidden columns
    R.append(("unknown.C_in_mutate", "ColumnNotFoundError", lambda x: x >> p.mutate(y=C.nope + 1)))
    R.append(("unknown.C_in_filter", "ColumnNotFoundError", lambda x: x >> p.filter(C.nope > 1)))
    R.append(("unknown.C_in_case", "ColumnNotFoundError", lambda x: x >> p.mutate(y=p.when(C.a > 0).then(C.nope).otherwise(0))))
    R.append(("unknown.C_in_arrange_kwarg", "ColumnNotFoundError", lambda x: x >> p.mutate(y=C.b.shift(1, arrange=[C.nope]))))
    R.append(("unknown.select_name", "ColumnNotFoundError", lambda x: x >> p.select("nope")))
    R.append(("unknown.hidden_reselect", "ColumnNotFoundError", lambda x: (lambda d: d >> p.drop(d.b) >> p.select(d.b))(x)))
    R.append(("unknown.rename_missing", "ValueError", lambda x: x >> p.rename({"nope": "q"})))
    # 7. duplicate names
    R.append(("duplicate.rename_existing", "ValueError", lambda x: x >> p.rename({"b": "g"})))
    R.append(("duplicate.rename_to_empty", "ValueError", lambda x: x >> p.rename({"b": ""})))  # F72: metadata kept the old name, the export had ''
    R.append(("duplicate.rename_two_same", "ValueError", lambda x: x >> p.rename({"b": "q", "g": "q"})))
    # 10. slice_head on a grouped table; markers outside arrange
    R.append(("grouped.slice_head", "ValueError", lambda x: x >> p.group_by(C.g) >> p.slice_head(1)))
    R.append(("marker.in_mutate", "TypeError|FunctionTypeError|DataTypeError|ValueError", lambda x: x >> p.mutate(y=C.a.descending())))
    R.append(("marker.in_filter", "TypeError|FunctionTypeError|DataTypeError|ValueError", lambda x: x >> p.filter(C.p.nulls_last())))
    R.append(("marker.nested", "TypeError|FunctionTypeError|DataTypeError|ValueError", lambda x: x >> p.mutate(y=C.a.nulls_first() + 1)))
    # more syntactic positions of a marker that is not at the top of an arrange key (F68; reported by a round-5 sub-agent):
    # below a cast, not at the top of an `arrange` / `arrange=` key, in a case condition, in an aggregate's argument
    MK = "TypeError|FunctionTypeError|DataTypeError|ValueError"
    R.append(("marker.under_cast", MK, lambda x: x >> p.mutate(y=C.a.descending().cast(p.Float64()))))
    R.append(("marker.arrange_not_top", MK, lambda x: x >> p.arrange(C.a.descending() + 1)))
    R.append(("marker.arrange_under_cast", MK, lambda x: x >> p.arrange(C.a.descending().cast(p.Float64()))))
    R.append(("marker.arrange_kwarg_not_top", MK, lambda x: x >> p.mutate(y=C.b.shift(1, arrange=[C.a.descending() + 1]))))
    R.append(("marker.in_case_condition", MK, lambda x: x >> p.mutate(y=p.when(C.a.descending() > 1).then(1).otherwise(0))))
    R.append(("marker.in_agg_argument", MK, lambda x: x >> p.group_by(C.g) >> p.summarize(y=C.a.nulls_last().max())))
    R.append(("marker.in_filter_nested", MK, lambda x: x >> p.filter(C.a.nulls_last() > 1)))
    return R


def two_table_rules(p):
    C = p.C
    R = []
    R.append(("join.grouped_left", "ValueError", lambda t, u, w: t >> p.group_by(t.g) >> p.inner_join(u, t.a == u.k)))
    R.append(("join.grouped_right", "ValueError", lambda t, u, w: t >> p.inner_join(u >> p.group_by(u.k), t.a == u.k)))
    R.append(("join.same_origin", "ValueError", lambda t, u, w: t >> p.inner_join(t >> p.filter(t.a > 0), C.a == C.b)))
    R.append(("join.same_origin_after_join", "ValueError", lambda t, u, w: t >> p.inner_join(u >> p.filter(u.x > 0), t.a == u.k) >> p.select(t.a) >> p.left_join(u, t.a == u.k)))
    R.append(("join.different_backend", "TypeError", lambda t, u, w: t >> p.inner_join(w, t.a == w.k)))
    R.append(("join.nonbool_on", "DataTypeError", lambda t, u, w: t >> p.inner_join(u, t.a + u.k)))
    R.append(("join.marker_in_on", "TypeError|DataTypeError|ValueError", lambda t, u, w: t >> p.inner_join(u, t.a.descending() == u.k)))
    R.append(("join.marker_top_of_on", "TypeError|DataTypeError|ValueError", lambda t, u, w: t >> p.inner_join(u, (t.a == u.k).descending())))
    R.append(("join.window_in_on", "FunctionTypeError", lambda t, u, w: t >> p.inner_join(u, t.a == u.x.shift(1, arrange=[u.k]))))
    R.append(("join.agg_in_on", "FunctionTypeError", lambda t, u, w: t >> p.inner_join(u, t.a == u.x.max())))
    R.append(("join.type_error_in_on", "DataTypeError", lambda t, u, w: t >> p.inner_join(u, t.s == u.k)))
    R.append(("join.unknown_in_on", "ValueError", lambda t, u, w: t >> p.inner_join(u, C.nope == u.k)))
    R.append(("join.on_col_dropped_by_summarize", "ValueError", lambda t, u, w: t >> p.group_by(t.g) >> p.summarize(s=t.b.sum()) >> p.inner_join(u, t.a == u.k)))
    R.append(("join.on_col_cut_by_alias", "ValueError", lambda t, u, w: t >> p.alias("z") >> p.inner_join(u, t.a == u.k)))
    R.append(("join.ambiguous_C", "ValueError", lambda t, u, w: t >> p.rename({"a": "k"}) >> p.inner_join(u, C.k == C.k)))
    R.append(("join.user_suffix_collides", "ValueError", lambda t, u, w: t >> p.rename({"b": "x_r"}) >> p.inner_join(u, t.a == u.k, suffix="_r")))
    R.append(("join.full_non_equality", "ValueError", lambda t, u, w: t >> p.full_join(u, t.a < u.k)))
    R.append(("union.grouped", "ValueError", lambda t, u, w: (t >> p.select(t.a, t.b) >> p.group_by(t.a)) >> p.union(u >> p.rename({"k": "a", "x": "b"}))))
    R.append(("union.names_differ", "ValueError", lambda t, u, w: (t >> p.select(t.a, t.b)) >> p.union(u)))
    R.append(("union.no_common_type", "TypeError", lambda t, u, w: (t >> p.select(t.a, t.s)) >> p.union(u >> p.rename({"k": "a", "x": "s"}))))
    R.append(("union.different_backend", "TypeError", lambda t, u, w: (t >> p.select(t.a, t.b)) >> p.union(w >> p.rename({"k": "a", "x": "b"}))))
    return R


SRC = None


def _sources():
    from ..kernel import BOOL, INT, STR

    return [("t", {"a": INT, "b": INT, "s": STR, "p": BOOL, "g": INT}), ("u", {"k": INT, "x": INT})]


def rejection_matrix(cfg):
    import polars as pl

    from .. import real as RL

    p = RL.RealAPI
    src = _sources()
    rows = {
        "t": [{"a": 1, "b": 2, "s": "x", "p": True, "g": 1}, {"a": -1, "b": None, "s": None, "p": False, "g": 1}, {"a": 3, "b": 5, "s": "y", "p": None, "g": 2}],
        "u": [{"k": 1, "x": 10}, {"k": 3, "x": None}],
    }
    frames = {n: RL.frame_from_rows(s, rows[n]) for n, s in src}
    viol, n, samples = [], 0, []

    def tables(be):
        if be == "polars":
            return RL.polars_tables(src, frames)
        return RL.sqlite_tables(src, RL.sqlite_engine(src, frames))

    def outcome(fn, *args):
        try:
            r = fn(*args)
            return "accepted", r
        except Exception as e:  # noqa: BLE001
            return type(e).__name__, None

    def usable(x, be):
        try:
            y = x >> p.mutate(_chk=p.C.a + 1)
            RL.export_rows(y)
            return True
        except Exception:  # noqa: BLE001
            return False

    for hname, h in histories(p):
        for rule, exc, fn in rules(p):
            got = {}
            for be in ("polars", "sqlite"):
                t, u = tables(be)
                try:
                    x = h(t, u)
                except Exception as e:  # noqa: BLE001
                    got[be] = f"history-failed:{type(e).__name__}"
                    continue
                n += 1
                o, _ = outcome(fn, x)
                got[be] = o
                if o not in exc.split("|"):
                    # SubqueryError may pre-empt the rule on SQL (it is raised by the same verb call)
                    if not (be == "sqlite" and o == "SubqueryError"):
                        viol.append({"key": f"c14.{rule}@{hname}.{be}", "what": f"expected {exc}, got {o}", "payload": {"rule": rule, "history": hname, "backend": be}})
                if not usable(x, be):
                    viol.append({"key": f"c14.{rule}@{hname}.{be}.unusable", "what": "input table not usable after the rejected call", "payload": {}})
            if len(samples) < 6:
                samples.append({"rule": rule, "history": hname, "outcome": got})
            if got.get("polars") != got.get("sqlite") and "SubqueryError" not in got.values() and not any(str(v).startswith("history-failed") for v in got.values()):
                viol.append({"key": f"c14.{rule}@{hname}.backends-differ", "what": f"outcome differs between backends: {got}", "payload": {}})
    for rule, exc, fn in two_table_rules(p):
        got = {}
        for be in ("polars", "sqlite"):
            t, u = tables(be)
            other = tables("sqlite" if be == "polars" else "polars")[1]
            n += 1
            o, _ = outcome(fn, t, u, other)
            got[be] = o
            if o not in exc.split("|"):
                viol.append({"key": f"c14.{rule}.{be}", "what": f"expected {exc}, got {o}", "payload": {"rule": rule, "backend": be}})
            if not usable(t, be):
                viol.append({"key": f"c14.{rule}.{be}.unusable", "what": "input table not usable after the rejected call", "payload": {}})
        if got["polars"] != got["sqlite"]:
            viol.append({"key": f"c14.{rule}.backends-differ", "what": f"outcome differs between backends: {got}", "payload": {}})
    return viol, n, samples


def run(tier, seed):
    from ..ch import runner
    from ..e1 import Cfg

    t0 = time.time()
    cfg = Cfg.for_tier(tier, seed)
    try:
        v, n, samples = rejection_matrix(cfg)
        faults = []
    except Exception:  # noqa: BLE001
        v, n, samples, faults = [], 0, [], ["c14 rejection matrix crashed: " + traceback.format_exc()[-400:]]
    k4 = runner.run_harnesses("k4", tier, seed)
    v += k4["violations"]
    faults += k4["harness_faults"]
    cov = {
        "evaluations": n + k4["paths_or_conditions"],
        "distinct_nontrivial": n,
        "rule": "one evaluation per (rejection rule x syntactic position x preceding history x backend) on the real library; distinct = all of them (each is a different program); plus the CrossHair conditions of K4 (symbolic names through rename / join suffixing)",
        "samples": samples,
        "crosshair": k4["coverage"],
        "exhaustive": False,
    }
    return cli.emit(
        PID, tier, seed, "exploration", cov, v, time.time() - t0,
        ["the quantifier of this property is the program; only the name-collision rules have a value the solver can choose (strings): K4", "expected exception types are read from the verb docstrings / errors module"] + k4["assumptions"],
        faults,
    )  # fmt: skip


def replay(path):
    import json

    rec = json.load(open(path))
    if "harness" in rec.get("payload", {}):
        from ..ch import runner

        return runner.replay_violation(path)
    print("re-run ./check C14 to reproduce:", rec["key"], rec["what"])
    return 1
