from . import _e1check

PID, CORPUS = "C01", "pv.corpora.c01"


def run(tier, seed):
    return _e1check.run(PID, CORPUS, tier, seed)


def replay(path):
    return _e1check.replay(PID, CORPUS, path)
