"""C01: Polars and SQLite return the same table - E1 cross-backend obligations over the union
of the corpora, plus a concrete differential run on TALL tables (> 100 rows with long null
prefixes), which lie outside every solver bound: the behaviour there lives in native code
(`pl.read_database` schema inference)."""

from __future__ import annotations

import random

from . import _e1check

PID, CORPUS = "C01", "pv.corpora.c01"


def tall_tables(cfg):
    import importlib

    from .. import real as RL
    from ..corpora.common import rotated
    from ..e1 import random_rows, same_rows

    mod = importlib.import_module(CORPUS)
    tps = [t for t in mod.templates(cfg) if "nonlinear" not in t.tags and not t.name[4:].startswith(("c18.", "c17.string"))]
    # only templates without any DEF condition (no division, rounding, unmarked order keys, ...):
    # random tall data cannot be kept inside DEF otherwise
    from .. import ref as R
    from ..e1 import make_inputs

    def has_def(tp):
        try:
            syms = make_inputs(tp, cfg)
            w = R.World()
            tp.prog(R.RefAPI, *[R.RTable.source(w, name, syms[name]) for name, _ in tp.sources])
            return bool(w.defs)
        except Exception:  # noqa: BLE001
            return True

    tps = [t for t in rotated(tps, 120 if cfg.tier == "quick" else 500, cfg.seed + 3) if not has_def(t)][: 40 if cfg.tier == "quick" else 200]
    rng = random.Random(cfg.seed * 17 + 1)
    viol, n, samples = [], 0, []
    for tp in tps:
        inputs = {}
        for name, schema in tp.sources:
            body = []
            while len(body) < 12:
                body += random_rows(schema, 4, rng, tp)
            body = body[:12]
            prefix = [{c: None for c in schema} for _ in range(105)]
            if not tp.nullable:
                prefix = []
            # keep one key-like column non-null in the prefix so that joins / groups stay meaningful
            first = next(iter(schema))
            for i, r in enumerate(prefix):
                if schema[first] == "int":
                    r[first] = i % 3
            inputs[name] = prefix + body
        out = {}
        for be in ("polars", "sqlite"):
            try:
                frames = {name: RL.frame_from_rows(schema, inputs[name]) for name, schema in tp.sources}
                tbls = RL.polars_tables(tp.sources, frames) if be == "polars" else RL.sqlite_tables(tp.sources, RL.sqlite_engine(tp.sources, frames))
                t = tp.prog(RL.RealAPI, *tbls)
                t = t[0] if isinstance(t, tuple) else t
                names, rows, df = RL.export_rows(t)
                out[be] = (names, rows)
            except Exception as e:  # noqa: BLE001
                out[be] = f"{type(e).__name__}: {str(e)[:160]}"
        n += 1
        a, b = out["polars"], out["sqlite"]
        if isinstance(a, str) and isinstance(b, str):
            continue  # data outside DEF for this template (e.g. division by zero): both refuse
        if isinstance(b, str) and ("SubqueryError" in b or "NotSupportedError" in b):
            continue
        if isinstance(a, str) or isinstance(b, str):
            # one backend fails on a tall table the other handles
            if isinstance(a, str) and any(k in a for k in ("ZeroDivision", "ComputeError: conversion", "InvalidOperation")):
                continue
            viol.append({"key": f"c01.tall.{tp.name}", "what": f"tall table (105 null-prefixed rows + 12): polars -> {a if isinstance(a, str) else 'ok'}, sqlite -> {b if isinstance(b, str) else 'ok'}", "payload": {"template": tp.name}})
            continue
        if a[0] != b[0] or not same_rows(a[1], b[1], False):
            # integer division / modulo by zero and similar DEF exclusions cannot be ruled out on random data:
            # only report when no arithmetic DEF applies to the template
            viol.append({"key": f"c01.tall.{tp.name}", "what": "tall table: Polars and SQLite export different rows", "payload": {"template": tp.name, "polars_head": str(a[1][:3]), "sqlite_head": str(b[1][:3])}})
        if len(samples) < 3:
            samples.append({"template": tp.name, "rows_in": {k: len(v) for k, v in inputs.items()}, "rows_out": len(a[1])})
    return viol, n, {"tall_table_runs": n, "tall_table_samples": samples}


def run(tier, seed):
    return _e1check.run(
        PID, CORPUS, tier, seed, extra=tall_tables,
        extra_assumptions=["tall tables (117 rows, 105 of them a null prefix) are compared concretely on the real engines for a rotating slice of templates without arithmetic DEF conditions - not solver-decided (coverage.tall_table_runs)"],
    )  # fmt: skip


def replay(path):
    return _e1check.replay(PID, CORPUS, path)
