"""C12: static types predict the exported types (see e1.type_obligations)."""

from __future__ import annotations

import time

from .. import cli

PID, CORPUS = "C12", "pv.corpora.c12"


def run(tier, seed):
    from .. import e1

    t0 = time.time()
    orig = e1.Cfg.for_tier

    def for_tier(t, s=0):
        c = orig(t, s)
        c.types_check = True
        return c

    e1.Cfg.for_tier = staticmethod(for_tier)
    try:
        cfg, tps, results, wall = cli.run_e1(PID, CORPUS, tier, seed)
    finally:
        e1.Cfg.for_tier = staticmethod(orig)
    coverage, viols, harness = cli.summarise_e1(PID, cfg, tps, results, wall)
    viols = [(r, o) for r, o in viols if o["kind"].startswith("types:")]
    obls = [o for r in results for o in r["obligations"] if o["kind"].startswith("types:")]
    cov = {
        "evaluations": len(obls),
        "distinct_nontrivial": len({(o["template"], o["kind"]) for o in obls}),
        "rule": "per template: (a) schema of the compiled Polars plan == static dtypes exactly; (b) static storage kind of every SQLite output expression as tracked by SEM_sqlite lies in the family of the static dtype; (c) exported schemas on random concrete tables (Polars exactly, SQLite up to the numeric family; all-null columns may be null-typed), Table(exported) and collect() reproduce the types. distinct = (template, obligation kind) pairs",
        "samples": [{"template": r["template"], "obligations": {o["kind"]: o["status"] for o in r["obligations"]}} for r in results[:5]],
        "programs": len(tps),
        "structural_ok": len([o for o in obls if o["status"] == "structural-ok"]),
        "functions_encoded": coverage["functions_encoded"],
        "exhaustive": False,
    }
    return cli.emit(
        PID, tier, seed, "exploration", cov, cli.e1_violations(viols, PID), time.time() - t0,
        [
            "Polars' own schema inference (LazyFrame.collect_schema) is the oracle for the plan's types: no table value is involved, so this part is a per-program comparison, not a for-all-data statement",
            "SQLite storage kinds are the static kinds tracked by SEM_sqlite (validated against the real engine in the other checks)",
            "'numeric family' is read leniently: a static Int/Float may export as any integer/float/decimal type on SQL",
        ],
        harness,
    )  # fmt: skip


def replay(path):
    from . import _e1check

    return _e1check.replay(PID, CORPUS, path)
