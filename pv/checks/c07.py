from . import _e1check

PID, CORPUS = "C07", "pv.corpora.c07"


def _extra(cfg):
    from ..corpora import c07 as C

    v, n = _e1check.rejection_clauses(C.rejections(), "c07")
    return v, n, {"rejection_clauses_checked": n}


def run(tier, seed):
    return _e1check.run(PID, CORPUS, tier, seed, extra=_extra)


def replay(path):
    return _e1check.replay(PID, CORPUS, path)
