"""C20: all export targets describe the same table.
[S] ColExpr.export's synthesised table (E1 corpus c20) and the target dispatch (K8,
CrossHair on the real verbs.export with a contract stub for the frame).
[P] on concrete random tables for a slice of the corpora: Polars(lazy=True).collect(),
Pandas, DictOfLists, ListOfDicts, Dict, Scalar (where applicable), ColExpr.export and
Table(exported) agree with export(Polars()) in names, order, values (and types for
re-import) - the conversions themselves are native code and outside the solver's reach."""

from __future__ import annotations

import dataclasses
import importlib
import math
import random

from . import _e1check

PID, CORPUS = "C20", "pv.corpora.c20"
BORROW = ["pv.corpora.c20", "pv.corpora.c02", "pv.corpora.c04", "pv.corpora.c05", "pv.corpora.c06", "pv.corpora.c07", "pv.corpora.c03"]


def _eqv(x, y):
    if x is None or y is None:
        return x is None and y is None or (isinstance(x, float) and math.isnan(x) and y is None) or (isinstance(y, float) and math.isnan(y) and x is None)
    if isinstance(x, float) or isinstance(y, float):
        return math.isclose(float(x), float(y), rel_tol=1e-12, abs_tol=1e-12)
    return x == y and type(x) is type(y)


def _pd_val(v):
    import pandas as pd

    if v is pd.NA or v is None:
        return None
    try:
        if pd.isna(v):
            return None
    except (TypeError, ValueError):
        pass
    if hasattr(v, "item"):
        v = v.item()
    return v


def agree_on(tp, be, inputs):
    """all export targets of the template's table on backend `be` for the given input rows:
    returns (problems, columns, height) - problems = [(what, detail)]; None if the pipeline is
    refused / the data are outside its domain"""
    import polars as pl

    import pydiverse.transform as pdt
    from pydiverse.transform import extended as X

    from .. import real as RL

    frames = {name: RL.frame_from_rows(schema, inputs[name]) for name, schema in tp.sources}
    try:
        tbls = RL.polars_tables(tp.sources, frames) if be == "polars" else RL.sqlite_tables(tp.sources, RL.sqlite_engine(tp.sources, frames))
        tbl = tp.prog(RL.RealAPI, *tbls)
        tbl = tbl[0] if isinstance(tbl, tuple) else tbl
        base = tbl >> X.export(pdt.Polars())
    except Exception:  # noqa: BLE001
        return None  # refused / data outside DEF: not this property's concern
    cols = base.columns
    rows = base.rows()
    problems = []

    def bad(what, detail=None):
        problems.append((what, detail))

    def same_rows(r2):
        if len(r2) != len(rows):
            return False
        a = sorted(rows, key=lambda r: tuple((v is None, str(v)) for v in r))
        b = sorted(r2, key=lambda r: tuple((v is None, str(v)) for v in r))
        return all(len(x) == len(y) and all(_eqv(p, q) for p, q in zip(x, y, strict=True)) for x, y in zip(a, b, strict=True))

    try:
        lz = (tbl >> X.export(pdt.Polars(lazy=True)))
        lz = lz.collect() if isinstance(lz, pl.LazyFrame) else lz
        if lz.columns != cols or not same_rows(lz.rows()) or lz.schema != base.schema:
            bad("lazy export differs from eager export", {"lazy": lz.columns, "eager": cols})
        dol = tbl >> X.export(pdt.DictOfLists())
        if list(dol) != cols or not same_rows(list(zip(*[dol[c] for c in cols], strict=True)) if cols else []):
            bad("DictOfLists differs", list(dol))
        lod = tbl >> X.export(pdt.ListOfDicts())
        if any(list(d) != cols for d in lod) or not same_rows([tuple(d[c] for c in cols) for d in lod]):
            bad("ListOfDicts differs")
        try:
            d1 = tbl >> X.export(pdt.Dict())
            if base.height != 1 or list(d1) != cols or not same_rows([tuple(d1[c] for c in cols)]):
                bad("Dict differs / accepted for height != 1")
        except TypeError:
            if base.height == 1:
                bad("Dict rejected a one-row table")
        try:
            sc = tbl >> X.export(pdt.Scalar())
            if not (base.height == 1 and len(cols) == 1 and _eqv(sc, rows[0][0])):
                bad("Scalar differs / accepted for a non 1x1 table")
        except TypeError:
            if base.height == 1 and len(cols) == 1:
                bad("Scalar rejected a 1x1 table")
        pdf = tbl >> X.export(pdt.Pandas())
        if list(pdf.columns) != cols or not same_rows([tuple(_pd_val(v) for v in r) for r in pdf.itertuples(index=False, name=None)]):
            bad("Pandas differs", {"pandas": pdf.to_dict("list"), "polars": base.to_dict(as_series=False)})
        else:
            # integer / boolean columns with nulls must keep an integer / boolean dtype
            for c in cols:
                if base.schema[c].is_integer() and "int" not in str(pdf[c].dtype).lower():
                    bad(f"Pandas dtype of integer column {c} is {pdf[c].dtype}")
                if base.schema[c] == pl.Boolean and "bool" not in str(pdf[c].dtype).lower():
                    bad(f"Pandas dtype of boolean column {c} is {pdf[c].dtype}")
        re = pdt.Table(base)
        rb = re >> X.export(pdt.Polars())
        if rb.columns != cols or rb.schema != base.schema or not same_rows(rb.rows()):
            bad("Table(exported) does not reproduce the frame", {"schema": (str(rb.schema), str(base.schema))})
        if cols:
            first = [c for c in tbl][0]
            ser = first.export(pdt.Polars())
            if ser.name != cols[0] or not same_rows_1(ser.to_list(), [r[0] for r in rows]):
                bad("ColExpr.export of the first column differs")
            pser = first.export(pdt.Pandas())
            if pser.name != cols[0] or len(pser) != base.height or not same_rows_1([_pd_val(v) for v in pser.tolist()], [r[0] for r in rows]):
                bad("ColExpr.export(Pandas) of the first column differs", {"name": pser.name, "len": len(pser), "values": pser.tolist()[:5]})
            elif str(pser.dtype) != str(pdf[cols[0]].dtype):
                bad(f"ColExpr.export(Pandas) dtype {pser.dtype} differs from the table export's {pdf[cols[0]].dtype}")
    except Exception as e:  # noqa: BLE001
        bad(f"export-target-error {type(e).__name__}: {str(e)[:200]}")
    return problems, cols, base.height


def _borrowed(cfg):
    from ..corpora.common import rotated

    tps = []
    for m in BORROW:
        mod = importlib.import_module(m)
        ts = mod.templates(cfg)
        tps += rotated(ts, 14 if cfg.tier == "quick" else 60, cfg.seed)
    return tps


def targets_agree(cfg):
    from ..e1 import random_rows

    rng = random.Random(cfg.seed * 31 + 5)
    viol, n, samples = [], 0, []
    # shapes: a random table, exactly one row (single-cell / one-row results), no row
    for tp, shape in [(tp, shape) for tp in _borrowed(cfg) for shape in ("random", "one", "empty")]:
        for be in ("polars", "sqlite"):
            inputs = {name: random_rows(schema, 4, rng, tp) for name, schema in tp.sources}
            if shape == "one":
                inputs = {name: (rows or random_rows(schema, 4, rng, tp) or [{c: None for c in schema}])[:1] for (name, schema), rows in zip(tp.sources, inputs.values(), strict=True)}
            elif shape == "empty":
                inputs = {name: [] for name in inputs}
            res = agree_on(tp, be, inputs)
            if res is None:
                continue
            problems, cols, height = res
            n += 1
            key = f"c20.targets.{be}.{tp.name}.{shape}"
            for what, detail in problems:
                viol.append({"key": key + ":" + what.split(" ")[0], "what": what, "payload": {"target_agreement": {"template": tp.name, "backend": be}, "inputs": inputs, "detail": str(detail)[:400]}})
            if len(samples) < 4:
                samples.append({"template": tp.name, "backend": be, "columns": cols, "height": height})
    return viol, n, {"target_agreement_tables": n, "target_samples": samples}


def same_rows_1(a, b):
    if len(a) != len(b):
        return False
    k = lambda v: (v is None, str(v))  # noqa: E731
    return all(_eqv(x, y) for x, y in zip(sorted(a, key=k), sorted(b, key=k), strict=True))


def run(tier, seed):
    return _e1check.run(PID, CORPUS, tier, seed, crosshair=("k8",), extra=targets_agree,
                        extra_assumptions=["conversions to pandas / dict / scalar are performed by Polars and pyarrow natively: they are compared on concrete random tables only ([P]); the solver-decided parts are ColExpr.export's synthesised table and the target dispatch (K8)"])


def replay(path):
    import json

    rec = json.load(open(path))
    ta = rec["payload"].get("target_agreement")
    if ta is None:
        return _e1check.replay(PID, CORPUS, path)
    # a target-agreement witness: re-run the comparison of all export targets on the recorded table
    from ..e1 import Cfg

    for tier in ("quick", "thorough"):
        cfg = Cfg.for_tier(tier)
        for m in BORROW:
            for tp in importlib.import_module(m).templates(cfg):
                if tp.name == ta["template"]:
                    res = agree_on(tp, ta["backend"], rec["payload"]["inputs"])
                    print("template", tp.name, "backend", ta["backend"], "inputs", rec["payload"]["inputs"])
                    print("problems:", res[0] if res else "pipeline refused")
                    return 1 if res and res[0] else 0
    print("template not found in the corpora:", ta["template"])
    return 3
