from . import _e1check

PID, CORPUS = "C15", "pv.corpora.c15"


def run(tier, seed):
    return _e1check.run(PID, CORPUS, tier, seed, crosshair=("k1",))


def replay(path):
    return _e1check.replay(PID, CORPUS, path)
