"""C18 = values (E1 corpus with z3 strings) + statement shape: the SQL text with the
literal must tokenise to the same shape as with a harmless literal."""

from __future__ import annotations

from . import _e1check

PID, CORPUS = "C18", "pv.corpora.c18"


def shape(sql):
    from ..sqlparse import tokenize

    out = []
    for kind, val in tokenize(sql):
        if kind == "str":
            out.append("STR")
        elif kind == "num":
            out.append("NUM")
        else:
            out.append(f"{kind}:{val}")
    # adjacent literal pieces of one LIKE pattern: 'x' || '%'  ->  STR (|| STR)*
    return out


def statement_shapes(cfg):
    from .. import real as RL
    from ..corpora import c18 as C
    from ..sqlparse import ParseError

    viol, n = [], 0
    frames = {"t": RL.dummy_frame(C.S[0][1], 0)}
    ref_shape = {}
    for pos, f in C.POS.items():
        t = RL.sqlite_tables(C.S, RL.sqlite_engine(C.S, frames))[0]
        try:
            ref_shape[pos] = shape(RL.sql_text(f(RL.RealAPI, t, "q")))
        except Exception as e:  # noqa: BLE001
            ref_shape[pos] = f"error:{type(e).__name__}"
    lits = C.literals(cfg) + C.REPLACE_EXTRA
    for pos, f in C.POS.items():
        for L in lits:
            n += 1
            t = RL.sqlite_tables(C.S, RL.sqlite_engine(C.S, frames))[0]
            try:
                sql = RL.sql_text(f(RL.RealAPI, t, L))
                sh = shape(sql)
            except ParseError as e:
                viol.append({"key": f"c18.shape.{pos}.{C.lname(L)}", "what": f"SQL with literal {L!r} does not tokenise: {e}", "payload": {"literal": L}})
                continue
            except Exception as e:  # noqa: BLE001
                viol.append({"key": f"c18.shape.{pos}.{C.lname(L)}", "what": f"build_query with literal {L!r} raised {type(e).__name__}: {str(e)[:200]}", "payload": {"literal": L}})
                continue
            if sh != ref_shape[pos]:
                viol.append({"key": f"c18.shape.{pos}.{C.lname(L)}", "what": f"statement shape changes with literal {L!r}", "payload": {"literal": L, "sql": sql}})
    return viol, n, {"statement_shapes_checked": n}


def run(tier, seed):
    return _e1check.run(PID, CORPUS, tier, seed, extra=statement_shapes)


def replay(path):
    return _e1check.replay(PID, CORPUS, path)
