"""shared implementation of the E1-based checks (one corpus module per property)"""

from __future__ import annotations

import importlib
import json

from .. import cli


def run(pid, corpus_mod, tier, seed, level="translation_validation", extra_assumptions=(), crosshair=(), extra=None):
    """crosshair: harness groups (pv/ch/<group>.py) whose conditions also belong to this
    property; extra: callable(cfg) -> (violations, n_checked, coverage_dict)"""
    import time

    t0 = time.time()
    cfg, tps, results, wall = cli.run_e1(pid, corpus_mod, tier, seed)
    coverage, viols, harness = cli.summarise_e1(pid, cfg, tps, results, wall)
    coverage["corpus"] = corpus_mod
    v = cli.e1_violations(viols, pid)
    assumptions = list(cli.E1_ASSUMPTIONS) + list(extra_assumptions)
    if crosshair:
        from ..ch import runner

        coverage["crosshair"] = []
        for group in crosshair:
            r = runner.run_harnesses(group, tier, seed)
            v += r["violations"]
            harness = list(harness) + r["harness_faults"]
            coverage["crosshair"].append(r["coverage"])
            coverage["obligations"] += r["paths_or_conditions"]
            coverage["discharged"] += r["confirmed"]
            coverage["inconclusive"] += r["inconclusive"]
            for a in r["assumptions"]:
                if a not in assumptions:
                    assumptions.append(a)
    if extra is not None:
        v2, n, cov2 = extra(cfg)
        v += v2
        coverage["structural_obligations"] += n
        coverage.update(cov2)
    return cli.emit(pid, tier, seed, level, coverage, v, time.time() - t0, assumptions, harness)


def rejection_clauses(rejections, prefix):
    """programs the documentation calls ill-formed: the real library must raise the documented
    exception *when the pipeline is built* on both backends, and REF must refuse them too.
    rejections: [(name, sources, prog, exception-name | tuple of names)].  No value quantifier:
    evaluated on the real library."""
    from .. import real as RL
    from .. import ref as R
    from ..e1 import Cfg, Template, make_inputs

    viol, n = [], 0
    for name, sources, prog, exc in rejections:
        excs = (exc,) if isinstance(exc, str) else tuple(exc)
        frames = {nm: RL.dummy_frame(schema, k) for k, (nm, schema) in enumerate(sources)}
        for be in ("polars", "sqlite"):
            n += 1
            tbls = RL.polars_tables(sources, frames) if be == "polars" else RL.sqlite_tables(sources, RL.sqlite_engine(sources, frames))
            got = "accepted"
            try:
                prog(RL.RealAPI, *tbls)
            except Exception as e:  # noqa: BLE001
                got = type(e).__name__
            if got not in excs:
                viol.append({"key": f"{prefix}.reject.{name}.{be}", "what": f"expected {' / '.join(excs)} when the pipeline is built, got {got}", "payload": {"clause": name, "backend": be}})
        n += 1
        tp = Template("x", sources, prog)
        syms = make_inputs(tp, Cfg())
        w = R.World()
        try:
            prog(R.RefAPI, *[R.RTable.source(w, nm, syms[nm]) for nm, _ in sources])
            viol.append({"key": f"{prefix}.reject.{name}.ref", "what": "REF accepts a program the documentation calls ill-formed (harness inconsistency)", "payload": {}})
        except R.RefError:
            pass
    return viol, n


def replay(pid, corpus_mod, path):
    """re-runs a recorded witness on the real engines (no solver involved)"""
    from ..e1 import Cfg, run_real, same_rows

    with open(path) as f:
        rec = json.load(f)
    payload = rec["payload"]
    if "harness" in payload:
        from ..ch import runner

        return runner.replay_violation(path)
    if "template" not in payload:
        # clause-level witness (rejection / acceptance clause, evaluated on the real library):
        # the clause is deterministic, re-running the check reproduces it
        print(f"clause-level witness {rec.get('key')}: {rec.get('what')}; re-run ./check {pid} to reproduce", json.dumps(payload)[:300])
        return 1
    mod = importlib.import_module(corpus_mod)
    tps = {t.name: t for t in mod.templates(Cfg.for_tier("thorough"))}
    tps.update({t.name: t for t in mod.templates(Cfg.for_tier("quick"))})
    tp = tps.get(payload["template"])
    if tp is None and "gen." in payload["template"]:
        from ..corpora import gen

        tp = gen.by_name(payload["template"])  # generated programs are a function of their name
    if tp is None:
        print(f"template {payload['template']} not in corpus")
        return 3
    detail = payload.get("detail") or {}
    inputs = detail.get("inputs")
    if inputs is None:
        print("structural / build violation: re-run the check itself to reproduce", json.dumps(detail)[:500])
        return 1
    out = {}
    for be in ("polars", "sqlite"):
        try:
            out[be] = run_real(tp, tp.prog, be, inputs)
        except Exception as e:  # noqa: BLE001
            out[be] = ("error", f"{type(e).__name__}: {e}")
        print(be, out[be])
    print("recorded:", {k: v for k, v in detail.items() if k != "inputs"})
    return 1
