"""C17 = cast values (E1 corpus) + the acceptance relation over the type universe."""

from __future__ import annotations

import itertools

from . import _e1check

PID, CORPUS = "C17", "pv.corpora.c17"


def acceptance(cfg):
    """documented table (cast docstring + the implicit conversions int->float,
    date->datetime + identity) vs Cast construction on a column of each source type"""
    import pydiverse.transform as pdt
    from pydiverse.common import (
        Bool, Date, Datetime, Decimal, Duration, Enum, Float, Float32, Float64, Int, Int8, Int16, Int32, Int64, List,
        NullType, String, Time, UInt8, UInt16, UInt32, UInt64,
    )  # fmt: skip
    from pydiverse.transform._internal.errors import DataTypeError
    from pydiverse.transform._internal.ops.op import Ftype
    from pydiverse.transform._internal.tree import types as T
    from pydiverse.transform._internal.tree.col_expr import Col

    ints_sized = [Int8(), Int16(), Int32(), Int64(), UInt8(), UInt16(), UInt32(), UInt64()]
    ints_doc = [Int8(), Int16(), Int32(), Int64()]
    floats_sized = [Float32(), Float64()]
    U = ints_sized + [Int(), Float(), *floats_sized, Decimal(), String(), String(8), Enum("a", "b"), Bool(), Date(), Datetime(), Time(), Duration(), List(Int64())]

    def fam(t):
        if t.is_int():
            return "int"
        if t.is_float():
            return "float"
        return type(t).__name__.lower()

    doc_targets = {str(x) for x in ints_doc + floats_sized} | {str(String()), str(Date()), str(Datetime())}

    def documented(s, t):
        fs, ft = fam(s), fam(t)
        if s == t:
            return True
        if str(t) not in doc_targets:
            return None  # the documentation lists sized targets only
        if fs == "float" and ft == "int":
            return True
        if fs == "string" and ft in ("int", "float"):
            return True
        if fs in ("int", "float") and ft == "string" and type(t) is String and t == String():
            return True
        if fs == "int" and ft in ("int", "float"):
            return True  # sized ints; implicit int -> float
        if fs == "float" and ft == "float":
            return True
        if fs == "datetime" and ft in ("date",):
            return True
        if fs in ("datetime", "date") and ft == "string" and t == String():
            return True
        if fs == "date" and ft == "datetime":
            return True  # implicit conversion
        if fs == "bool" and ft in ("int", "float"):
            return True  # C17: "bool to int gives 0/1"
        return None  # not fixed by the documentation

    viol, n, samples = [], 0, []
    for s, t in itertools.product(U, U):
        n += 1
        col = Col("c", None, None, s, Ftype.ELEMENT_WISE)
        try:
            col.cast(t)
            got = True
        except DataTypeError:
            got = False
        except Exception as e:  # noqa: BLE001
            viol.append({"key": f"c17.accept.{s}->{t}", "what": f"cast construction raised {type(e).__name__}: {e}", "payload": {}})
            continue
        # a constant source is subject to the same table as a column source
        n += 1
        ccol = Col("c", None, None, T.Const(s), Ftype.ELEMENT_WISE)
        try:
            ccol.cast(t)
            got_const = True
        except DataTypeError:
            got_const = False
        except Exception as e:  # noqa: BLE001
            got_const = f"{type(e).__name__}"
        if got_const != got:
            viol.append({"key": f"c17.accept.const.{s}->{t}", "what": f"cast acceptance differs for a constant source: column {got}, constant {got_const}", "payload": {}})
        want = documented(s, t)
        if len(samples) < 6:
            samples.append({"source": str(s), "target": str(t), "accepted": got})
        if want is True and not got:
            viol.append({"key": f"c17.accept.{s}->{t}", "what": "documented cast rejected", "payload": {}})
        # casts the documentation does not list must be rejected when they change the
        # family in an undocumented direction
        forbidden = (
            (fam(s) in ("bool",) and fam(t) in ("string", "date", "datetime", "time", "duration", "list", "enum"))
            or (fam(s) in ("int", "float") and fam(t) in ("bool", "date", "datetime", "time", "duration", "list"))
            or (fam(s) in ("date", "datetime", "time", "duration", "list") and fam(t) in ("int", "float", "bool"))
            or (fam(s) == "string" and fam(t) in ("bool", "date", "datetime", "time", "duration", "list"))
        )
        if forbidden and got:
            viol.append({"key": f"c17.accept.{s}->{t}", "what": "cast outside the documented table accepted", "payload": {}})
    # the z3 calendar / temporal text of the kernel against Python's datetime (Serval-style
    # validation of the encoding that the temporal templates rely on)
    import importlib.util
    import os

    spec = importlib.util.spec_from_file_location("selftest_calendar", os.path.join(os.path.dirname(__file__), "..", "..", "tools", "selftest_calendar.py"))
    mod = importlib.util.module_from_spec(spec)
    spec.loader.exec_module(mod)
    try:
        cal = mod.main(600 if cfg.tier == "quick" else 6000, cfg.seed)
    except AssertionError as e:
        cal = 0
        viol.append({"key": "c17.calendar-encoding", "what": f"harness: z3 calendar disagrees with datetime: {e}", "payload": {}})
    return viol, n, {"acceptance_pairs_checked": n, "acceptance_samples": samples, "calendar_encoding_instants_validated": cal}


def run(tier, seed):
    return _e1check.run(PID, CORPUS, tier, seed, extra=acceptance)


def replay(path):
    return _e1check.replay(PID, CORPUS, path)
