"""tools/selftest_calendar.py : the kernel's z3 calendar (civil_from_days, weekday, time fields,
temporal text) against Python's datetime on random instants.  Run by hand / by C17's check."""
import datetime as dt
import random
import sys

import z3

sys.path.insert(0, __file__.rsplit("/tools/", 1)[0])
from pv import kernel as K  # noqa: E402
from pv import strings as S  # noqa: E402


def main(n=3000, seed=0):
    rng = random.Random(seed)
    ev = lambda t: z3.simplify(t)  # noqa: E731
    for _ in range(n):
        d = rng.randint(K.DAY_LO - 40000, K.DAY_HI + 40000)
        py = K.days_to_date(d)
        y, m, dd, j = [ev(x).as_long() for x in K.civil(z3.IntVal(d))]
        assert (y, m, dd, j) == (py.year, py.month, py.day, py.timetuple().tm_yday), (d, y, m, dd, j)
        c = K.Cell(K.DATE, K.FALSE, z3.IntVal(d))
        assert ev(K.temporal_field(c, "day_of_week").val).as_long() == py.isoweekday()
    for _ in range(n // 10):
        us = rng.randint(K.DAY_LO * K.US_DAY, (K.DAY_HI + 1) * K.US_DAY - 1)
        py = K.us_to_dt(us)
        c = K.Cell(K.DT, K.FALSE, z3.IntVal(us))
        got = [ev(K.temporal_field(c, f).val).as_long() for f in ("year", "month", "day", "hour", "minute", "second")]
        assert got == [py.year, py.month, py.day, py.hour, py.minute, py.second], (us, got, py)
        assert ev(S.dt_to_str(c).val).as_string() == py.strftime("%Y-%m-%d %H:%M:%S.%f"), us
        assert ev(S.date_to_str(K.dt_to_date(c)).val).as_string() == py.date().isoformat(), us
    return n


if __name__ == "__main__":
    print("calendar self-test ok:", main())
