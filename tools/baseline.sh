#!/bin/bash
# Runs the repository's pinned test suite (guard off: there are no hooks) and checks that
# the 64 stable tests of /root/.vp/BASELINE.json pass.
out=$(mktemp)
cd /repo && /venv/bin/python -m pytest -ra -q -p no:cacheprovider --timeout=900 --continue-on-collection-errors --junitxml="$out" >/dev/null 2>&1
/venv/bin/python - "$out" <<'PY'
import json, sys, xml.etree.ElementTree as ET
base = set(json.load(open("/root/.vp/BASELINE.json"))["stable_pass"])
passed = set()
for tc in ET.parse(sys.argv[1]).getroot().iter("testcase"):
    if not any(ch.tag in ("failure", "error", "skipped") for ch in tc):
        passed.add(f"{tc.get('classname')}::{tc.get('name')}")
missing = sorted(base - passed)
print(f"baseline: {len(base & passed)}/{len(base)} stable tests pass")
for m in missing: print("  MISSING", m)
sys.exit(1 if missing else 0)
PY
rc=$?; rm -f "$out"; exit $rc
