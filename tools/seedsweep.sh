#!/bin/bash
# tools/seedsweep.sh <seeds...> -- <check ids...> : runs the quick tier under several VERIF_SEED values
seeds=(); while [ "$1" != "--" ]; do seeds+=("$1"); shift; done; shift
for s in "${seeds[@]}"; do for id in "$@"; do
  out=$(VERIF_SEED=$s ./check "$id" 2>&1); rc=$?
  echo "seed=$s $id rc=$rc $(echo "$out" | tail -1 | cut -c1-160)"
  [ $rc -ne 0 ] && echo "$out" | grep -E "what:|HARNESS" | head -5
done; done
