#!/bin/bash
# tools/seedtest.sh <patch.diff> <check-id>...   apply a seeded change to /repo, run the checks, undo it
patch="$1"; shift
cd /repo || exit 2
if [ -n "$(git status --porcelain)" ]; then echo "/repo not clean"; exit 2; fi
git apply "$patch" || { echo "patch does not apply"; exit 2; }
trap 'git -C /repo checkout -- . ' EXIT
cd /verif
for id in "$@"; do
  out=$(./check "$id" 2>&1); rc=$?
  echo "== $id rc=$rc $(echo "$out" | grep -c '^VIOLATION') violation lines"
  echo "$out" | grep -E "what:|HARNESS" | head -6
done
