#!/bin/bash
# tools/confirm_seed.sh <seed-dir>  -> prints one JSON line: applies / demo pristine rc / demo patched rc / baseline tests passing
seed="$1"; name=$(echo "$seed" | sed 's|/tmp/seeds/||; s|/verif/seeded/||; s|/|_|g')
wt=/tmp/cs_$name
git -C /repo worktree remove --force "$wt" >/dev/null 2>&1
git -C /repo worktree add -q --detach "$wt" HEAD || exit 2
pf="$seed/patch.diff"; [ -f "$seed/patch.ported.diff" ] && pf="$seed/patch.ported.diff"
cd "$wt"
PYTHONPATH="$wt/src" PYTHONWARNINGS=ignore timeout 300 /venv/bin/python "$seed/demo.py" >/dev/null 2>&1; rc0=$?
if git apply "$pf" 2>/dev/null; then applies=true; else applies=false; fi
PYTHONPATH="$wt/src" PYTHONWARNINGS=ignore timeout 300 /venv/bin/python "$seed/demo.py" >/dev/null 2>&1; rc1=$?
out=$(mktemp)
PYTHONPATH="$wt/src" /venv/bin/python -m pytest -q -p no:cacheprovider --timeout=900 --continue-on-collection-errors --junitxml="$out" >/dev/null 2>&1
pass=$(/venv/bin/python - "$out" <<'PY'
import json, sys, xml.etree.ElementTree as ET
base = set(json.load(open("/root/.vp/BASELINE.json"))["stable_pass"])
passed = set()
for tc in ET.parse(sys.argv[1]).getroot().iter("testcase"):
    if not any(ch.tag in ("failure", "error", "skipped") for ch in tc):
        passed.add(f"{tc.get('classname')}::{tc.get('name')}")
print(len(base & passed))
PY
)
rm -f "$out"
cd /; git -C /repo worktree remove --force "$wt"
echo "{\"seed\": \"$name\", \"patch\": \"$(basename $pf)\", \"applies\": $applies, \"demo_rc_pristine\": $rc0, \"demo_rc_patched\": $rc1, \"baseline_tests_passing\": $pass}"
