"""tools/genprobe.py <stream> <count> [tier]: run generated programs through E1 and print the non-discharged obligations"""
import json, sys, collections
sys.path.insert(0, "/verif")
from pv import cli
import pv.corpora.gen as gen

stream, count = int(sys.argv[1]), int(sys.argv[2])
tier = sys.argv[3] if len(sys.argv) > 3 else "quick"

class Mod:  # ad-hoc corpus
    pass

import types
m = types.ModuleType("pv.corpora._genprobe")
m.templates = lambda cfg: [gen.template(stream, i) for i in range(count)]
sys.modules["pv.corpora._genprobe"] = m
cfg, tps, results, wall = cli.run_e1("C01", "pv.corpora._genprobe", tier, 0)
stat = collections.Counter()
for tp, r in zip(tps, results):
    OKS = ("unsat", "structural-ok", "ok", "validated", "reachable", "discriminates", "output-always-empty", "fallback-agrees")
    bad = [o for o in r["obligations"] if not o["status"].startswith(OKS) and ":refused:" not in o["status"]]
    if r["seconds"] > 30: print("SLOW", tp.name, round(r["seconds"]), tp.note)
    for o in r["obligations"]:
        stat[o["status"].split(":")[0]] += 1
    if bad:
        print("==", tp.name, tp.note)
        for o in bad:
            print("   ", o["kind"], o["status"][:200], (json.dumps(o.get("detail"), default=str)[:600] if o.get("detail") else ""))
print(stat, f"wall {wall:.0f}s")
