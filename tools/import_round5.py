"""tools/import_round5.py : copies the confirmed round-5 changes (/tmp/seeds/<P>/F, letter F) into /verif/seeded/<P>-F/
with what every check said (/tmp/MATRIX_F.json, written by tools/matrix_round5.py) and the confirmation on the final
/repo HEAD (/tmp/confirm_final5.log, tools/confirm_seed.sh).  The earlier rounds' directories are left as they are."""
import json, os, shutil, subprocess

SRC, DST = "/tmp/seeds", "/verif/seeded"
matrix = json.load(open("/tmp/MATRIX_F.json"))
conf = {}
for line in open("/tmp/confirm_final5.log"):
    r = json.loads(line)
    conf[r["seed"].replace("_", "-")] = r
head = subprocess.run(["git", "-C", "/repo", "log", "--format=%h", "-1"], capture_output=True, text=True).stdout.strip()
n = 0
for key in sorted(matrix):
    p, x = key.split("-")
    src = os.path.join(SRC, p, x)
    c = conf.get(key)
    ok = c and c["applies"] and c["demo_rc_pristine"] == 0 and c["demo_rc_patched"] != 0 and c["baseline_tests_passing"] == 64
    if not ok:
        print("NOT CONFIRMED", key, c)
        continue
    dst = os.path.join(DST, key)
    os.makedirs(dst, exist_ok=True)
    ported = os.path.exists(os.path.join(src, "patch.ported.diff"))
    shutil.copy(os.path.join(src, "patch.ported.diff" if ported else "patch.diff"), os.path.join(dst, "patch.diff"))
    shutil.copy(os.path.join(src, "demo.py"), os.path.join(dst, "demo.py"))
    meta = json.load(open(os.path.join(src, "meta.json")))
    res = matrix[key]
    caught = sorted(k for k, v in res.items() if v.get("rc") == 1)
    missed = sorted(k for k, v in res.items() if v.get("rc") == 0)
    out = {
        "property": p,
        "round": 5,
        "what_it_breaks": meta.get("what_it_breaks"),
        "needs_to_manifest": meta.get("needs_to_manifest"),
        "files_touched": meta.get("files_touched"),
        "origin": "written by an independent sub-agent that saw only the property text and a scratch worktree of /repo (nothing from /verif)"
        + ("; patch re-based by hand onto the current /repo HEAD (the identical edit) because a later fix: commit touched the same block" if ported else ""),
        "confirmed": {
            "what_i_ran": "tools/confirm_seed.sh <seed>: scratch worktree of /repo HEAD; demo.py on the pristine tree (must exit 0), git apply patch.diff, demo.py again (must exit non-zero), then the pinned pytest command compared with the 64 stable tests of BASELINE.json (all must pass)",
            "repo_head": head,
            **{k: c[k] for k in ("applies", "demo_rc_pristine", "demo_rc_patched", "baseline_tests_passing")},
        },
        "checks_run": {k: {"exit": v["rc"], "violation_lines": v["violation_lines"], "first": v["first"][:200]} for k, v in res.items()},
        "caught_by": caught,
        "not_caught_by": missed,
    }
    json.dump(out, open(os.path.join(dst, "meta.json"), "w"), indent=1)
    n += 1
print(n, "round-5 changes imported")
