"""tools/import_seed.py <P> <X> <caught_by_json> : copies a confirmed seeded change into /verif/seeded/<P>-<X>/"""
import json, os, shutil, subprocess, sys

P, X = sys.argv[1], sys.argv[2]
caught = json.loads(sys.argv[3]) if len(sys.argv) > 3 else {}
src = f"/tmp/seeds/{P}/{X}"
dst = f"/verif/seeded/{P}-{X}"
os.makedirs(dst, exist_ok=True)
pf = os.path.join(src, "patch.ported.diff") if os.path.exists(os.path.join(src, "patch.ported.diff")) else os.path.join(src, "patch.diff")
shutil.copy(pf, os.path.join(dst, "patch.diff"))
shutil.copy(os.path.join(src, "demo.py"), os.path.join(dst, "demo.py"))
meta = json.load(open(os.path.join(src, "meta.json")))
conf = None
for line in open("/tmp/confirm.log"):
    r = json.loads(line)
    if r["seed"] == f"{P}_{X}":
        conf = r
out = {
    "property": P,
    "what_it_breaks": meta.get("what_it_breaks"),
    "needs_to_manifest": meta.get("needs_to_manifest"),
    "files_touched": meta.get("files_touched"),
    "origin": "written by an independent sub-agent that saw only the property text and a scratch worktree of /repo (nothing from /verif)" + ("; patch re-based onto the current /repo HEAD by hand (same one-line change) because a later fix: commit touched adjacent lines" if pf.endswith("ported.diff") else ""),
    "confirmed": {
        "what_i_ran": "tools/confirm_seed.sh: scratch worktree of /repo HEAD; demo.py on the pristine tree, git apply patch.diff, demo.py again, then the pinned pytest command compared with the 64 stable tests of BASELINE.json",
        "repo_head": subprocess.run(["git", "-C", "/repo", "log", "--format=%h", "-1"], capture_output=True, text=True).stdout.strip(),
        **(conf or {}),
    },
    "caught_by": caught,
}
json.dump(out, open(os.path.join(dst, "meta.json"), "w"), indent=1)
print(dst, "caught_by", caught)
