"""Regenerates MANIFEST.json from the table below (single source of truth)."""
import json, os, sys

ROOT = os.path.dirname(os.path.dirname(os.path.abspath(__file__)))
TV = "SMT translation validation (z3) of the compiled Polars plan JSON and SQLite SQL text against a reference semantics over bounded symbolic tables; counterexamples replayed on the real engines"
NOTE_E1 = "trusted: engine models SEM_polars / SEM_sqlite (validated on every run against real Polars / SQLite on random tables), REF (the reference reading of the documentation), z3. Programs: bounded enumeration of the template corpus; values: decided by the solver within the stated bounds (rows <= 3/4 per table, |int| <= 2^31 (16 where non-linear), strings <= 3/4 chars). Non-SQLite dialects are not executed or modelled."

CHECKS = {
 "C02": ("translation_validation", "for every template of the row-level-verb corpus (compositions of select/drop/rename/mutate/filter/slice_head/group_by/alias) z3 shows that the plan compiled for Polars and the SQL compiled for SQLite denote the same table as the reference semantics, for every input table in the bounds", "3 C02", TV, NOTE_E1, "E1"),
 "C03": ("translation_validation", "one template per element-wise operator x operand shape: z3 shows Polars plan = SQLite SQL = documented null-aware value for all operand values in the bounds (sign rules of // and %, Kleene logic, null propagation, horizontal min/max, is_in with nulls, case expressions)", "3 C03", TV, NOTE_E1, "E1"),
 "C04": ("translation_validation", "summarize templates (0/1/2 grouping columns, computed and nullable keys, every aggregate, filter=, filter before/after, expressions over aggregates): z3 shows both artefacts equal the reference (one row per present key combination, nulls ignored, null for all-null groups, HAVING vs WHERE) for all tables in the bounds", "3 C04", TV, NOTE_E1, "E1"),
 "C05": ("translation_validation", "arrange with every marker combination and window functions with every partition/order specification, in every position relative to filter/slice_head/select/rename/alias: z3 shows sequence / per-row equality with the reference for all tables in the bounds (order keys total, null positions only where a marker fixes them)", "3 C05", TV, NOTE_E1, "E1"),
 "C06": ("translation_validation", "join templates (inner/left/full/cross; equality, conjunction, inequality, expression predicates; filters/mutates/renames/aliases on either side; hidden and colliding names): z3 shows the exact multiset of row combinations incl. null padding equals the reference for all pairs of tables in the bounds; names and reachability of hidden columns via probe columns", "3 C06", TV, NOTE_E1, "E1"),
 "C07": ("translation_validation", "union templates (permuted columns, hidden/overwritten columns, distinct / all, chained, verbs before and after): z3 shows by-name alignment and multiplicities equal the reference for all pairs of tables in the bounds", "3 C07", TV, NOTE_E1, "E1"),
 "C08": ("translation_validation", "every order of the verb kinds filter / element-wise, window and aggregate mutate / summarize / slice_head / arrange / join of length <= 2 (3 rotating; all 3 in thorough) with and without alias() at every position: whenever SQLite accepts the pipeline z3 shows its SQL equals the Polars plan and the reference for all tables in the bounds; the acceptance clauses (alias repairs SubqueryError, never-needs class, Polars never raises) are evaluated per sequence on the real library", "3 C08", TV, NOTE_E1 + " The acceptance clauses have no value quantifier (exception behaviour only).", "E1"),
}

ORDER = sorted(CHECKS)

def main():
    checks = []
    for pid in ORDER:
        cat, text, ref, tech, note, eng = CHECKS[pid]
        checks.append({
            "property_id": pid,
            "quick_cmd": f"./check {pid} --tier quick",
            "thorough_cmd": f"./check {pid} --tier thorough",
            "evidence_file": f"/verif/evidence/{pid}.json",
            "replay_cmd_template": f"./check {pid} --replay {{path}}",
            "engine": eng,
            "level_claimed": {"category": cat, "text": text, "design_ref": f"DESIGN.md section {ref}"},
            "level_note": note,
            "technique": tech,
        })
    na = json.load(open(os.path.join(ROOT, "tools", "not_applicable.json")))
    claimed = set(ORDER)
    na = [x for x in na if x["property_id"] not in claimed]
    engines = [
        {"name": "E1", "path": "pv/e1.py", "serves_properties": [p for p in ORDER if CHECKS[p][5] == "E1"], "kind_free_text": "translation validation in z3: symbolic semantics of the compiled Polars plan JSON (pv/sem_polars.py) and of the SQLite SQL text (pv/sqlparse.py, pv/sem_sqlite.py) vs the reference semantics (pv/ref.py) over the bounded relational kernel (pv/kernel.py)"},
        {"name": "E2", "path": "pv/ch", "serves_properties": [p for p in ORDER if CHECKS[p][5] == "E2"], "kind_free_text": "CrossHair symbolic execution (z3) of real repository functions with symbolic ints / strings"},
        {"name": "E3", "path": "pv/ty", "serves_properties": [p for p in ORDER if CHECKS[p][5] == "E3"], "kind_free_text": "z3 over the type-conversion relations and overload tries read from the live objects"},
    ]
    m = {
        "version": 1,
        "setup_cmd": "./setup.sh",
        "hooks": {
            "guard": "PYDIVERSE_TRANSFORM_VERIF",
            "enable": "no hooks: the compiled artefacts (Polars plan JSON, SQL text) and all metadata are reachable through the public API; nothing in /repo is instrumented",
            "baseline_off_cmd": "/verif/tools/baseline.sh",
            "source_commits": [],
            "add_only": True,
        },
        "engines": [e for e in engines if e["serves_properties"]],
        "checks": checks,
        "not_applicable": na,
        "notes": "fix: commits in /repo and open findings are listed in known_findings.json and DESIGN.md section 7. Every check prints KNOWN-FINDING lines for listed open findings and exits 1 only for unlisted, replayed violations.",
    }
    json.dump(m, open(os.path.join(ROOT, "MANIFEST.json"), "w"), indent=1)
    print("checks:", len(checks), "not_applicable:", len(na))

if __name__ == "__main__":
    main()
