"""Regenerates MANIFEST.json from the table below (single source of truth)."""
import json, os, sys

ROOT = os.path.dirname(os.path.dirname(os.path.abspath(__file__)))
TV = "SMT translation validation (z3) of the compiled Polars plan JSON and SQLite SQL text against a reference semantics over bounded symbolic tables; counterexamples replayed on the real engines"
NOTE_E1 = "trusted: engine models SEM_polars / SEM_sqlite (validated on every run against real Polars / SQLite on random tables), REF (the reference reading of the documentation), z3. Programs: bounded enumeration of the template corpus; values: decided by the solver within the stated bounds (rows <= 3/4 per table, |int| <= 2^31 (16 where non-linear), strings <= 3/4 chars). Non-SQLite dialects are not executed or modelled."

CH = "CrossHair symbolic execution (z3) of the real Python functions with symbolic ints / strings; counterexamples replayed without tracing"
CHECKS = {
 "C01": ("translation_validation", "for every template of the union of all corpora (every verb kind, expression kind and two-table shape) z3 shows that the plan compiled for Polars and the SQL compiled for SQLite denote the same table (names, order, multiset; sequence where a final arrange with total keys fixes it) for every input table within the bounds; no reference semantics is compared, REF only supplies the definedness assumptions", "3 C01", TV, NOTE_E1, "E1"),
 "C02": ("translation_validation", "for every template of the row-level-verb corpus (compositions of select/drop/rename/mutate/filter/slice_head/group_by/alias) z3 shows that both compiled artefacts denote the same table as the reference semantics for every input table in the bounds; the LIMIT/OFFSET composition of chained slice_head is decided for ALL non-negative integers by CrossHair on the real SQL compiler (K1)", "3 C02", TV + "; " + CH, NOTE_E1, "E1"),
 "C03": ("translation_validation", "one template per element-wise operator x operand shape (incl. 4-5 operand varargs, reused sub-expressions, operators nested in case branches): z3 shows Polars plan = SQLite SQL = documented null-aware value for all operand values in the bounds (sign rules of // and %, Kleene logic, null propagation, horizontal min/max, is_in with nulls, case expressions); the same for Date / Datetime operands (days / microseconds as integers over 1960..2099, calendar and time fields, SQLite comparing temporal values as text)", "3 C03", TV, NOTE_E1, "E1"),
 "C04": ("translation_validation", "summarize templates (0/1/2 grouping columns, computed and nullable keys, every aggregate, filter=, filter before/after, expressions over aggregates, after slice_head/alias): z3 shows both artefacts equal the reference (one row per present key combination, exactly one row when ungrouped, nulls ignored, null for all-null groups, HAVING vs WHERE) for all tables in the bounds", "3 C04", TV, NOTE_E1, "E1"),
 "C05": ("translation_validation", "arrange with every marker combination and window functions with every partition/order specification, in every position relative to filter/slice_head/select/rename/alias: z3 shows sequence / per-row equality with the reference for all tables in the bounds (order keys total, null positions only where a marker fixes them)", "3 C05", TV, NOTE_E1, "E1"),
 "C06": ("translation_validation", "join templates (inner/left/full/cross; equality, conjunction, inequality, expression predicates; filters/mutates/renames/aliases on either side; hidden and colliding names): z3 shows the exact multiset of row combinations incl. null padding equals the reference for all pairs of tables in the bounds; names per the documented suffix rule and reachability of hidden columns via probe columns", "3 C06", TV, NOTE_E1, "E1"),
 "C07": ("translation_validation", "union templates (permuted columns, hidden/overwritten columns, distinct / all, chained, verbs before and after): z3 shows by-name alignment and multiplicities equal the reference for all pairs of tables in the bounds; unions of tables whose visible names differ are rejected when built (8 clauses x 2 backends, evaluated)", "3 C07", TV, NOTE_E1, "E1"),
 "C08": ("translation_validation", "every order of the verb kinds filter / element-wise, window and aggregate mutate / grouped and ungrouped summarize / slice_head / arrange / left join / left join of a derived table / full join of length <= 2 (48 rotating of length 3; all in thorough) with and without alias() at every position: whenever SQLite accepts the pipeline z3 shows its SQL equals the Polars plan and the reference for all tables in the bounds; acceptance clauses (alias repairs SubqueryError, never-needs class, Polars never raises) evaluated per sequence on the real library; K1 for the limit/offset composition", "3 C08", TV, NOTE_E1 + " The acceptance clauses have no value quantifier (exception behaviour only).", "E1"),
 "C09": ("translation_validation", "probe templates: after every history (rename, swaps, rename onto hidden names, select/drop, overwrite and re-create, arrange, filter, joins with suffixing, alias(keep_col_refs=True), references from intermediate tables) a probe column built from the OLD reference is shown by z3 to carry the originally referenced data on both backends for all data; derived[ref].name and the rejection clauses are compared with REF per template", "3 C09", TV, NOTE_E1 + " Names and exception types have no value quantifier.", "E1"),
 "C10": ("translation_validation", "pairs (pipeline built from SHARED expression / table objects, same pipeline built from fresh objects): z3 shows the compiled artefacts of the shared version equal REF of the pipeline as written and the artefacts of the fresh version, per backend, for all data - one aggregate/window expression under two groupings and in mutate+summarize, C-expressions and case expressions reused, tables reused after export/build_query and after pipelines derived from them", "3 C10", TV, NOTE_E1, "E1"),
 "C11": ("exploration", "part 1: for every verb history of the corpora the metadata accessors (columns(), iteration, len, in, dir, []) equal the names and order of the compiled select list on both backends; part 2: CrossHair executes the real verbs / Cache.update / Cache.from_ast / polars.compile_ast with SYMBOLIC column names and selections and confirms over all paths that incremental metadata = recomputed metadata = compiled select list", "3 C11", CH + "; bounded enumeration of verb histories for the structural part", "no table value occurs in this property; the solver chooses names (1 character quick / 2 thorough over a 5-letter alphabet) and selections; the rest is bounded enumeration", "E2"),
 "C12": ("exploration", "per template of the union corpus: schema of the compiled Polars plan equals the static dtypes exactly (Polars' schema inference as oracle); kind of every SQLite output expression as tracked by SEM_sqlite and passed through the SQLAlchemy result processor of the real Select (no Boolean / Date / DateTime processor = raw integer / text) equals the family of the static dtype, where for the numeric family the result type of the real Select decides (a Float column must be typed Float there, an Int column must have modelled INTEGER storage); on random concrete tables the exported schemas, Table(exported) and collect() reproduce the types", "3 C12", "static typing of the compiled artefacts (SEM_sqlite kinds, Polars collect_schema) per enumerated program; no solver query decides this property", "types are a per-program property: no value quantifier for the Polars part; re-import / collect run natively on sampled tables", "E1"),
 "C13": ("other", "z3 decides for ALL argument-type tuples over the 50-element type universe (arity as declared, varargs unrolled to 4) that no operator has an ambiguous best overload (the internal assertion), that sized int/float/decimal types are accepted wherever the generic one is with a result of the same family, that constants are accepted wherever columns are and that const parameters reject columns; relations are read by calling the real converts_to/conversion_cost/implicit_conversions, the matching rule is validated exhaustively against the real trie on all unary and binary tuples; CrossHair confirms the arg-min kernel (K5) and the Decimal(p,s)/String(n) families (K6); const-ness of typed constants (lit(v, T), casts of constants) and their acceptance in const-declared parameters is evaluated on the real ColFn.dtype() (operator x position x constant form)", "2.3, 3 C13", "z3 over finite relations read from the live type lattice and overload tries; " + CH, "finite type universe; the symbolic matcher is a reference model of SignatureTrie.all_matches (exhaustively validated for arity <= 2)", "E3"),
 "C14": ("exploration", "every rejection rule x syntactic position x preceding history on Polars- and SQLite-backed tables: documented exception type, identical on both backends, input table still usable; CrossHair (K4) runs the real rename / join-suffix code with symbolic names and confirms: well-formed table or the documented ValueError, never a silently lost column", "3 C14", CH + " for the name rules; bounded enumeration for the other rules", "the quantifier of this property is the program only; the solver decides the string part", "E2"),
 "C15": ("translation_validation", "each documented equivalence is instantiated, both sides are compiled by the real code and z3 shows SEM(side A) = SEM(side B) per backend for all data (artefact vs artefact), plus side A vs REF; chained slice_head vs combined slice additionally for all integers (K1)", "3 C15", TV + "; " + CH, NOTE_E1, "E1"),
 "C16": ("translation_validation", "SEM(P >> alias()) = SEM(P), likewise alias(keep_col_refs=True), collect() (two-stage: the collected frame is bound to the symbolic result of stage 1) and transfer_col_references, for 9 base pipelines; old/new references after re-rooting, grouping across alias/collect, self-joins of derived tables vs REF; all for every input table in the bounds", "3 C16", TV, NOTE_E1 + " collect() itself executes natively on dummy data; what is decided is the bookkeeping around it.", "E1"),
 "C17": ("translation_validation", "cast templates (float->int truncation, bool->int/float, int->float, int->string, string->int on plain numerals, Datetime->Date, Date->Datetime, Date/Datetime->String incl. frames with millisecond / nanosecond unit and constant sources, nulls, casts nested in case/filter/group keys/comparisons): z3 shows both artefacts equal the documented value for all data in the bounds; the acceptance relation of Cast over the type universe is compared with the documented table", "3 C17", TV, NOTE_E1 + " float->string, date/datetime casts and overflow are outside.", "E1"),
 "C18": ("translation_validation", "column data are symbolic z3 strings over printable ASCII + 'e-acute' + newline; the literal ranges over all strings of length 1 (quick: + selected pairs; thorough: all pairs) over the SQL/LIKE metacharacter alphabet in 14 literal-taking positions: z3 shows SEM_sqlite(sql) = SEM_polars(plan) = REF for all column strings (LIKE patterns become regular expressions); the SQL text must tokenise to the same statement shape as with a harmless literal", "3 C18", TV + " with z3 strings / regular expressions", NOTE_E1, "E1"),
 "C19": ("other", "z3 decides over all accepted argument-type tuples that the implementation tries of every backend class are unambiguous; the real get_impl is called exhaustively for arity <= 2 and the selected implementation applied to dummy columns must return a value; CrossHair (K2) on integer-parameter implementations; every corpus template is built against offline PostgreSQL / SQL Server / SQLite engines: one SELECT or NotSupportedError/SubqueryError, same text twice", "3 C19", "z3 over implementation tries; " + CH + "; per-program compilation on offline dialect engines", "non-SQLite SQL is generated, never executed or modelled", "E3"),
 "C20": ("translation_validation", "ColExpr.export: the table synthesised by get_expr_as_table equals the expression as one column over its ancestor table (z3, both backends, all data); target dispatch of export (Scalar/Dict guards, every target a projection of the same frame) confirmed over all paths by CrossHair (K8) with a contract stub for the frame; Pandas/dict/scalar/re-import agreement compared on random concrete tables", "3 C20", TV + "; " + CH, NOTE_E1 + " conversions to pandas / dict / scalar are native code: compared on sampled tables only.", "E1"),
}

ORDER = sorted(CHECKS)

def main():
    checks = []
    for pid in ORDER:
        cat, text, ref, tech, note, eng = CHECKS[pid]
        checks.append({
            "property_id": pid,
            "quick_cmd": f"./check {pid} --tier quick",
            "thorough_cmd": f"./check {pid} --tier thorough",
            "evidence_file": f"/verif/evidence/{pid}.json",
            "replay_cmd_template": f"./check {pid} --replay {{path}}",
            "engine": eng,
            "level_claimed": {"category": cat, "text": text, "design_ref": f"DESIGN.md section {ref}"},
            "level_note": note,
            "technique": tech,
        })
    na = json.load(open(os.path.join(ROOT, "tools", "not_applicable.json")))
    claimed = set(ORDER)
    na = [x for x in na if x["property_id"] not in claimed]
    engines = [
        {"name": "E1", "path": "pv/e1.py", "serves_properties": [p for p in ORDER if CHECKS[p][5] == "E1"], "kind_free_text": "translation validation in z3: symbolic semantics of the compiled Polars plan JSON (pv/sem_polars.py) and of the SQLite SQL text (pv/sqlparse.py, pv/sem_sqlite.py) vs the reference semantics (pv/ref.py) over the bounded relational kernel (pv/kernel.py)"},
        {"name": "E2", "path": "pv/ch", "serves_properties": [p for p in ORDER if CHECKS[p][5] == "E2"], "kind_free_text": "CrossHair symbolic execution (z3) of real repository functions with symbolic ints / strings"},
        {"name": "E3", "path": "pv/ty", "serves_properties": [p for p in ORDER if CHECKS[p][5] == "E3"], "kind_free_text": "z3 over the type-conversion relations and overload tries read from the live objects"},
    ]
    m = {
        "version": 1,
        "setup_cmd": "./setup.sh",
        "hooks": {
            "guard": "PYDIVERSE_TRANSFORM_VERIF",
            "enable": "no hooks: the compiled artefacts (Polars plan JSON, SQL text) and all metadata are reachable through the public API; nothing in /repo is instrumented",
            "baseline_off_cmd": "/verif/tools/baseline.sh",
            "source_commits": [],
            "add_only": True,
        },
        "engines": [e for e in engines if e["serves_properties"]],
        "checks": checks,
        "not_applicable": na,
        "notes": "fix: commits in /repo and open findings are listed in known_findings.json and DESIGN.md section 7. Every check prints KNOWN-FINDING lines for listed open findings and exits 1 only for unlisted, replayed violations.",
    }
    json.dump(m, open(os.path.join(ROOT, "MANIFEST.json"), "w"), indent=1)
    print("checks:", len(checks), "not_applicable:", len(na))

if __name__ == "__main__":
    main()
