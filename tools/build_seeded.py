"""Copies the confirmed seeded changes from /tmp/seeds into /verif/seeded/<P>-<X>/ and writes the matrix table
(/verif/seeded/MATRIX.md) from /verif/seeded/MATRIX.json (tools/fullmatrix.py)."""
import json, os, re, shutil, subprocess

SRC = "/tmp/seeds"
DST = "/verif/seeded"
matrix = json.load(open(os.path.join(DST, "MATRIX.json")))
conf = {}
for f in ("/tmp/confirm.log", "/tmp/confirm2.log", "/tmp/confirm3.log", "/tmp/confirm_final.log", "/tmp/confirm_flaky.log"):
    if os.path.exists(f):
        for line in open(f):
            r = json.loads(line)
            conf[r["seed"].replace("_", "-")] = r
head = subprocess.run(["git", "-C", "/repo", "log", "--format=%h", "-1"], capture_output=True, text=True).stdout.strip()
# seeded changes that stopped being defects because a later fix: commit made the code robust against them
OBSOLETE = {
    "C11-D": "obsolete since fix a27f549 (F51): the outer query now labels subquery columns with their own names, so the order in which collision suffixes are assigned can no longer leak into the exported names; before that commit the change was confirmed (demo failed, 64 tests passed) and caught by C11 (`c11.subquery_hidden_namesake_filter`, matrix run 2)",
}
FLAKY = {
    "C19-C": "the demo is probabilistic by nature (the change makes build_query depend on the iteration order of a set of fresh UUIDs): on the final tree it failed in 1 of 8 runs (3 of 10 over the session); confirmed on a failing run",
}
rows = []
for key in sorted(matrix):
    if key in OBSOLETE:
        p_, x_ = key.split("-")
        dst = os.path.join(DST, key)
        os.makedirs(dst, exist_ok=True)
        for f in ("patch.diff", "demo.py"):
            shutil.copy(os.path.join(SRC, p_, x_, f), os.path.join(dst, f))
        meta = json.load(open(os.path.join(SRC, p_, x_, "meta.json")))
        json.dump({"property": p_, "what_it_breaks": meta.get("what_it_breaks"), "needs_to_manifest": meta.get("needs_to_manifest"), "files_touched": meta.get("files_touched"), "status": OBSOLETE[key], "caught_by": [], "not_caught_by": [], "checks_run": {}}, open(os.path.join(dst, "meta.json"), "w"), indent=1)
        continue
    p, x = key.split("-")
    src = os.path.join(SRC, p, x)
    c = conf.get(key)
    ok = c and c["applies"] and c["demo_rc_pristine"] == 0 and c["demo_rc_patched"] != 0 and c["baseline_tests_passing"] == 64
    if not ok:
        print("NOT CONFIRMED", key, c)
        continue
    dst = os.path.join(DST, key)
    os.makedirs(dst, exist_ok=True)
    pf = os.path.join(src, "patch.ported.diff") if os.path.exists(os.path.join(src, "patch.ported.diff")) else os.path.join(src, "patch.diff")
    shutil.copy(pf, os.path.join(dst, "patch.diff"))
    shutil.copy(os.path.join(src, "demo.py"), os.path.join(dst, "demo.py"))
    meta = json.load(open(os.path.join(src, "meta.json")))
    res = matrix[key]
    caught = sorted(k for k, v in res.items() if isinstance(v, dict) and v.get("rc") == 1)
    missed = sorted(k for k, v in res.items() if isinstance(v, dict) and v.get("rc") == 0)
    broken = sorted(k for k, v in res.items() if isinstance(v, dict) and v.get("rc") not in (0, 1))
    out = {
        "property": p,
        "what_it_breaks": meta.get("what_it_breaks"),
        "needs_to_manifest": meta.get("needs_to_manifest"),
        "files_touched": meta.get("files_touched"),
        **({"note": FLAKY[key]} if key in FLAKY else {}),
        "origin": "written by an independent sub-agent that saw only the property text and a scratch worktree of /repo (nothing from /verif)"
        + ("; patch re-based by hand onto the current /repo HEAD (the identical one-line change) because a later fix: commit touched adjacent lines" if pf.endswith("ported.diff") else ""),
        "confirmed": {
            "what_i_ran": "tools/confirm_seed.sh <seed>: scratch worktree of /repo HEAD; demo.py on the pristine tree (must exit 0), git apply patch.diff, demo.py again (must exit non-zero), then the pinned pytest command compared with the 64 stable tests of BASELINE.json (all must pass)",
            **{k: c[k] for k in ("applies", "demo_rc_pristine", "demo_rc_patched", "baseline_tests_passing")},
        },
        "checks_run": {k: {"exit": v["rc"], "violation_lines": v["violation_lines"], "first": v["first"][:200]} for k, v in res.items() if isinstance(v, dict)},
        "caught_by": caught,
        "not_caught_by": missed,
    }
    json.dump(out, open(os.path.join(dst, "meta.json"), "w"), indent=1)
    first = ""
    for k in caught:
        m = re.search(r"what: ([^ ]+?):", res[k]["first"])
        if m:
            first = m.group(1)
            break
    rows.append((key, ", ".join(meta.get("files_touched") or [])[:60].replace("src/pydiverse/transform/_internal/", ""), (meta.get("what_it_breaks") or "")[:110].replace("|", "/").replace("\n", " "), ", ".join(caught) or "**none**", ", ".join(missed), first))
with open(os.path.join(DST, "MATRIX.md"), "w") as f:
    f.write("| seed | file(s) | what it breaks (abridged) | caught by | run, not caught | first witness |\n|---|---|---|---|---|---|\n")
    for r in rows:
        f.write("| " + " | ".join(r) + " |\n")
print(len(rows), "seeds imported;", sum(1 for r in rows if r[3] != "**none**"), "caught by at least one check;", sum(1 for r in rows if r[0].split("-")[0] in r[3]), "caught by their own property's check")
