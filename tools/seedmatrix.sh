#!/bin/bash
# tools/seedmatrix.sh <seed-dir> <check-id>...
# Runs checks against a scratch worktree of /repo with the seeded change applied
# (PYTHONPATH override; /repo itself is not touched).  Prints one line per check.
seed="$1"; shift
name=$(echo "$seed" | tr '/' '_' | sed 's/^_tmp_seeds_//; s/^_verif_seeded_//')
wt=/tmp/sw_$name
git -C /repo worktree remove --force "$wt" >/dev/null 2>&1
git -C /repo worktree add -q --detach "$wt" HEAD || exit 2
pf="$seed/patch.diff"; [ -f "$seed/patch.ported.diff" ] && pf="$seed/patch.ported.diff"
if ! git -C "$wt" apply "$pf"; then echo "$name: PATCH DOES NOT APPLY"; git -C /repo worktree remove --force "$wt"; exit 2; fi
out=/tmp/so_$name; rm -rf "$out"; mkdir -p "$out"
cd /verif
for id in "$@"; do
  log="$out/$id.log"
  PV_OUT="$out" PV_REPO_SRC="$wt/src" PYTHONPATH="$wt/src" PYTHONWARNINGS=ignore .venv/bin/python -m pv.cli "$id" > "$log" 2>&1; rc=$?
  echo "$name $id rc=$rc viol=$(grep -c '^VIOLATION' "$log") :: $(grep 'what:' "$log" | head -2 | tr '\n' ' ' | cut -c1-220)"
done
git -C /repo worktree remove --force "$wt"
