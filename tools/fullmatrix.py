"""tools/fullmatrix.py [--jobs N] : runs every seeded change under /verif/seeded (or /tmp/seeds) against its own
property's check and a few neighbouring checks, on scratch worktrees (tools/seedmatrix.sh); writes
/verif/seeded/MATRIX.json.  Not part of any registered check."""
import concurrent.futures as cf
import json, os, re, subprocess, sys

EXTRA = {
    "C01": ["C03", "C06"], "C02": ["C08", "C10"], "C03": ["C10"], "C04": ["C08"], "C05": ["C16", "C08"], "C06": ["C09"],
    "C07": [], "C08": ["C06", "C10", "C02"], "C09": ["C06", "C11", "C10", "C14"], "C10": ["C08"], "C11": ["C06", "C04"],
    "C12": ["C05", "C04"], "C13": [], "C14": ["C06"], "C15": ["C03", "C02", "C07", "C05"], "C16": ["C05", "C09", "C06"],
    "C17": ["C12"], "C18": ["C03"], "C19": ["C08"], "C20": ["C11", "C05"],
}
ROOT = sys.argv[1] if len(sys.argv) > 1 and not sys.argv[1].startswith("--") else "/tmp/seeds"


def seeds():
    out = []
    for p in sorted(os.listdir(ROOT)):
        if not re.fullmatch(r"C\d\d", p):
            continue
        for x in sorted(os.listdir(os.path.join(ROOT, p))):
            d = os.path.join(ROOT, p, x)
            if os.path.isfile(os.path.join(d, "patch.diff")):
                out.append((p, x, d))
    return out


def run(seed):
    p, x, d = seed
    checks = [p] + EXTRA.get(p, [])
    r = subprocess.run(["/verif/tools/seedmatrix.sh", d] + checks, capture_output=True, text=True)
    res = {}
    for ln in r.stdout.splitlines():
        m = re.match(r"(\S+) (C\d\d) rc=(\d+) viol=(\d+) :: ?(.*)", ln)
        if m:
            res[m.group(2)] = {"rc": int(m.group(3)), "violation_lines": int(m.group(4)), "first": m.group(5)[:300]}
        elif "PATCH DOES NOT APPLY" in ln:
            res["_error"] = "patch does not apply"
    return f"{p}-{x}", res


if __name__ == "__main__":
    jobs = 3
    with cf.ThreadPoolExecutor(max_workers=jobs) as ex:
        out = dict(ex.map(run, seeds()))
    os.makedirs("/verif/seeded", exist_ok=True)
    json.dump(out, open("/verif/seeded/MATRIX.json", "w"), indent=1)
    for k, v in out.items():
        caught = [c for c, r in v.items() if isinstance(r, dict) and r.get("rc") == 1]
        print(k, "caught by", caught or "NONE", v.get("_error", ""))
