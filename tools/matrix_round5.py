"""tools/matrix_round5.py [jobs] : runs every round-5 change (/tmp/seeds/<P>/F) against its own property's quick check
and one neighbouring check on scratch worktrees (tools/seedmatrix.sh); writes /tmp/MATRIX_F.json.  Not part of any
registered check."""
import concurrent.futures as cf, json, re, subprocess, sys

EXTRA = {
    "C01": ["C05"], "C02": ["C09"], "C03": [], "C04": ["C08"], "C05": ["C15"], "C06": ["C08"], "C07": ["C15"], "C08": ["C05"],
    "C09": ["C16"], "C10": ["C04"], "C11": ["C16"], "C12": ["C17"], "C13": [], "C14": ["C05"], "C15": ["C02"], "C16": ["C11"],
    "C17": ["C12"], "C18": ["C03"], "C19": [], "C20": ["C11"],
}  # fmt: skip


def run(p):
    r = subprocess.run(["/verif/tools/seedmatrix.sh", f"/tmp/seeds/{p}/F", p] + EXTRA[p], capture_output=True, text=True)
    res = {}
    for ln in r.stdout.splitlines():
        m = re.match(r"(\S+) (C\d\d) rc=(\d+) viol=(\d+) :: ?(.*)", ln)
        if m:
            res[m.group(2)] = {"rc": int(m.group(3)), "violation_lines": int(m.group(4)), "first": m.group(5)[:300]}
    print(p, {k: v["rc"] for k, v in res.items()}, flush=True)
    return f"{p}-F", res


if __name__ == "__main__":
    jobs = int(sys.argv[1]) if len(sys.argv) > 1 else 3
    with cf.ThreadPoolExecutor(max_workers=jobs) as ex:
        out = dict(ex.map(run, sorted(EXTRA)))
    json.dump(out, open("/tmp/MATRIX_F.json", "w"), indent=1)
