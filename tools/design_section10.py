"""tools/design_section10.py : (re)writes section 10 of DESIGN.md from /verif/seeded/*/meta.json
(tools/build_seeded.py).  The narrative part is fixed text below; the table is generated."""
import glob
import json
import os
import re

ROOT = os.path.dirname(os.path.dirname(os.path.abspath(__file__)))
HIST = {
    # seeds that the checks of the time did NOT catch, and what was added (first matrix runs)
    "C08-A": "round 1: caught only by C10 -> acceptance-difference obligation in every pair check",
    "C08-B": "round 1: caught only by C06 -> verb kind K (join of a filtered table) in the C08 sequences",
    "C20-B": "round 1: caught only by C11 -> `perm_*` templates in C20",
    "C01-C": "round 2: own check missed -> enlarged C01 core (all of c03/c17 in every quick run)",
    "C01-D": "round 2: own check missed -> enlarged C01 core",
    "C02-C": "round 2: missed -> reuse / alias-below-slice templates in C02",
    "C02-D": "round 2: missed -> same",
    "C08-C": "round 2: missed -> K1 (slice composition) and targeted alias-on-source sequences in C08",
    "C08-D": "round 2: missed -> same",
    "C09-C": "round 2: missed -> `reuse_case_after_swap`, `reuse_cast_on_derived`, ref-refuses-but-accepted obligation",
    "C09-D": "round 2: missed -> extra rejection clauses",
    "C07-A": "matrix 1: patch no longer applied after three union fixes -> re-based by hand; caught by C07",
    "C07-D": "matrix 1: missed by every check -> rejection clauses for unions with differing visible names (C07)",
    "C10-D": "matrix 1: missed -> argument containers (list of join keys, dicts) reused across verbs (C10)",
    "C11-D": "matrix 1: missed -> hidden + visible column of one name through a SQL subquery (C11), C08/C16 corpora borrowed",
    "C12-C": "matrix 1: missed -> case expressions whose constant default is wider than the branches (C03 -> C12)",
    "C12-D": "matrix 1: missed -> Bool `sum` as window function without partition_by (C05 -> C12)",
    "C13-C": "matrix 1: missed -> const-ness of typed constants, pv/ty/constness.py (C13)",
    "C14-C": "matrix 1: missed -> non-boolean `when` conditions through C. (C14)",
    "C14-D": "matrix 1: missed -> aggregate with partition_by= inside summarize (C14)",
    "C16-D": "matrix 1: caught by C06/C09 only -> self-joins hiding a column on both sides (C16)",
    "C17-C": "matrix 1: missed -> casts of constant Date / Datetime sources (C17, after the temporal extension)",
    "C17-D": "matrix 1: missed -> frames with millisecond / nanosecond datetime unit (C17)",
    "C20-C": "matrix 1: missed -> `derived[t.x].export(..)` (C20)",
    # round 3: generated after all of the above; first exposure = the checks as they were then
    "C03-E": "round 3, first exposure: MISSED (str.len in bytes needs non-ASCII data) -> `s_len_unicode*` templates + UTF-8 length in SEM_polars",
    "C04-E": "round 3, first exposure: caught",
    "C05-E": "round 3, first exposure: MISSED (one order key twice with different markers) -> `c05.samecol.*` (added for the genuine defect F43 the same agent stumbled on)",
    "C06-E": "round 3, first exposure: caught",
    "C08-E": "round 3, first exposure: MISSED (spurious SubqueryError for full_join after filter >> alias) -> verb kind Q (full join) in sequences and acceptance clauses",
    "C12-E": "round 3, first exposure: MISSED - the check read 'numeric family' leniently; led to the strict reading and to the genuine defects F45-F49 (section 3 C12); patch re-based after those fixes",
    "C13-E": "round 3, first exposure: caught",
    "C14-E": "round 3, first exposure: caught",
    "C17-E": "round 3, first exposure: caught",
    "C19-E": "round 3, first exposure: caught",
    # round 4: one more change for each of the other ten properties, generated after everything above
    "C01-E": "round 4, first exposure: caught",
    "C02-E": "round 4, first exposure: MISSED (both backends and the metadata move together; only `drop` re-ordering the remaining columns shows it) -> pairs `X >> helper column >> drop` vs `X` in C02",
    "C07-E": "round 4, first exposure: caught",
    "C09-E": "round 4, first exposure: caught",
    "C10-E": "round 4, first exposure: caught",
    "C11-E": "round 4, first exposure: caught",
    "C15-E": "round 4, first exposure: MISSED (window function nested inside an expression after slice_head) -> nested-window templates in C15 / C05, verb kind N in C08",
    "C16-E": "round 4, first exposure: MISSED by C16 itself (C09's `c09.case.suffix_collides_with_column` covers the shape) -> old references through alias(keep_col_refs=True) with a hidden namesake and a real subquery (C16)",
    "C18-E": "round 4, first exposure: caught",
    "C20-E": "round 4, first exposure: MISSED (ColExpr.export(Pandas) of a one-row result) -> table shapes random / one row / empty and ColExpr.export(Pandas) in the target agreement of C20",
    # round 5: one more change for every property (letter F), generated at the start of the last session; first exposure =
    # the committed checks of that moment (7bb36c9), before the generator, the wide-integer mode and the shapes below existed
    "C01-F": "round 5, first exposure: MISSED by C01's quick tier (the deciding templates `c05.win.*.desc_nf` sat in the seed-rotated part; C05 and C01 thorough catch it) -> `c05.win.` moved into C01's fixed core",
    "C02-F": "round 5, first exposure: MISSED by C02 itself (C09 catches the identical change C09-F) -> `c02.t.hidden_namesake_subquery_*`: an overwritten column referenced through alias(keep_col_refs=True) across a real subquery; patch re-based after fix F61",
    "C03-F": "round 5, first exposure: MISSED (`//` through float64 differs only beyond 2**53, outside the 2**31 bound) -> wide-integer mode (4.9) and `c03.wide.*`; the same templates found the genuine defect F58",
    "C04-F": "round 5, first exposure: MISSED (grouping key computed by a case expression whose branch values are all literals) -> grouping-key shapes `case_lits`, `case_lits_noelse`, `cmp_key`, `const_key`, `const_and_col` in C04; `const_key` exposed the genuine defect F57",
    "C05-F": "round 5, first exposure: caught",
    "C06-F": "round 5, first exposure: caught",
    "C07-F": "round 5, first exposure: caught",
    "C08-F": "round 5, first exposure: caught",
    "C09-F": "round 5, first exposure: caught; patch re-based after fix F61",
    "C10-F": "round 5, first exposure: caught",
    "C11-F": "round 5, first exposure: caught",
    "C12-F": "round 5, first exposure: MISSED (cast to the abstract target `Float()` whose result is exported as it is; every existing template added a float afterwards) -> `c17.int_to_generic_float_bare`, `generic_targets_bare`, `generic_float_agg` (seen by C12 through borrowing)",
    "C13-F": "round 5, first exposure: caught (the agent re-invented C13-B)",
    "C14-F": "round 5, first exposure: caught",
    "C15-F": "round 5, first exposure: caught",
    "C16-F": "round 5, first exposure: MISSED (order of several grouping columns through alias()) -> `c16.grouping_order_survives_*`",
    "C17-F": "round 5, first exposure: caught",
    "C18-F": "round 5, first exposure: caught",
    "C19-F": "round 5, first exposure: caught",
    "C20-F": "round 5, first exposure: caught",
}

TEXT = """## 10. Seeded changes: which checks catch which

**How the changes were made.**  Fresh sub-agents were started in rounds; each saw only the text of
one property and its own scratch git worktree of /repo under /tmp (nothing from /verif, not the
other agents' work) and was asked for a small change that breaks the property, still compiles,
keeps the pinned test-suite green and needs something specific to manifest, plus a demo script.
Rounds 1 and 2 gave two changes per property each (A/B, C/D), rounds 3 and 4 one more (E) for
ten properties each (round 3 after the temporal extension, round 4 at the end of the build session), round 5 one more (F)
for every property.  Every change was confirmed by me before it was kept
(`tools/confirm_seed.sh`: scratch worktree of the current /repo HEAD, demo exits 0 on the pristine
tree and non-zero with the patch, the 64 stable tests pass with the patch) and is stored as
`seeded/<property>-<letter>/{patch.diff, demo.py, meta.json}`; `meta.json` records what it breaks,
what it needs to manifest, what I ran and what every check said.  Patches that no longer applied
after one of my `fix:` commits were re-based by hand onto the current HEAD (the identical edit;
noted in `meta.json`).  No change was ever committed to /repo; checks were run on scratch
worktrees with `PYTHONPATH` pointing at the patched tree (`tools/seedmatrix.sh`,
`tools/fullmatrix.py`), never from a snapshot of /verif.

**What the matrix measures.**  Each change is run against its own property's quick check and a
few neighbouring checks.  `caught by` = checks that exit 1 with a VIOLATION line whose replay
reproduces on the patched tree; `run, not caught` = checks that were run and stayed silent (for a
neighbouring property that is usually correct: the change does not touch it).

**What the misses taught.**  The first complete matrix (80 changes, before the last strengthening)
had 13 changes not caught by their own property's check, 12 of them by none of the checks that
were run.  None was a weakness of a solver query: in every case the *program space* lacked the
shape (a union whose right side shows fewer names, a list object reused as join keys, a typed
constant, a `C.`-condition, a datetime frame in milliseconds, ...).  This is the limit stated in
section 5: values are decided by the solver, programs are enumerated.  Each miss was closed by
adding the shape to the corpus / rule table of the property it belongs to (column `history`), the
checks were re-run on the unchanged tree (no new alarm) and on the change (caught).  Round 3 was
generated *after* that, so its first exposure shows what the strengthened checks do on changes
they were not tuned to: 6 of 10 caught (C04, C06, C13, C14, C17, C19), 4 missed (C03, C05, C08,
C12) - again program shapes (non-ASCII strings for `str.len`, one order key twice, full joins) and,
for C12, a too lenient reading of the property on my side, whose correction exposed five genuine
defects of the unchanged code (F45-F49).  The sub-agents also reported three things that failed on
the *unchanged* tree while they built their demos; all three were confirmed, reproduced by a new
template and repaired (F42-F44).  Round 4 (one more change for each of the other ten properties) repeated the
measurement: first exposure 6 of 10 caught (C01, C07, C09, C10, C11, C18), 4 missed (C02, C15, C16,
C20), each again a missing program shape (column `history`); one more defect of the unchanged tree
came in as a side remark of a sub-agent (F56).  So on changes the checks were not tuned to, the
observed detection rate of "own property's quick check" was 12 of 20; after adding the missing
shapes all are caught.

Round 5 (last session; one more change for *every* property, letter F, twenty fresh sub-agents that again saw only the
property text and a scratch worktree) was measured against the committed checks as they stood at the start of that
session: first exposure 14 of 20 caught (C05-C11, C13-C15, C17-C20), 6 missed (C01, C02, C03, C04, C12, C16).  Two of the
misses were caught by a neighbouring check (C01-F by C05, C02-F by C09 - the same edit as C09-F, found independently);
C01-F was a quick-tier rotation gap, C03-F lay outside the integer bound (it led to the wide-integer mode of 4.9), the other
four were again missing program shapes (column `history`).  Over the three unbiased rounds the own-property quick check
caught 26 of 40 changes at first exposure, 30 of 40 counting neighbouring checks.  The larger yield of round 5 was indirect:
the agents' notes about things that already failed on the *unchanged* tree (7.4) led to fifteen `fix:` commits (F57, F59-F72);
each was first turned into a template or rule that raises the violation on the then-current tree.  Two patches (C02-F,
C09-F) had to be re-based by hand after fix F61 touched the same block (the identical edit); all twenty were re-confirmed
on the final /repo HEAD.  The scratch worktrees shared one `git stash` (my prompt suggested it), so some agents briefly
received each other's edits; every delivered patch was therefore confirmed again by me on a clean worktree
(`tools/confirm_seed.sh`), which is what counts.  The table below is the state after the last strengthening; the rows of rounds
1-4 were measured on the tree of the previous session (their `meta.json` records the HEAD they were confirmed on) and were not
re-run after the sixteen fixes of this session.

"""


def main():
    rows = []
    for d in sorted(glob.glob(os.path.join(ROOT, "seeded", "C??-?"))):
        key = os.path.basename(d)
        m = json.load(open(os.path.join(d, "meta.json")))
        what = (m.get("what_it_breaks") or "").replace("|", "/").replace("\n", " ")
        what = what[:150] + ("…" if len(what) > 150 else "")
        files = ", ".join(f.replace("src/pydiverse/transform/_internal/", "") for f in (m.get("files_touched") or []))
        first = ""
        for k in m.get("caught_by", []):
            mm = re.search(r"what: ([^ ]+?):", m["checks_run"][k]["first"])
            if mm:
                first = mm.group(1)
                break
        if m.get("status", "").startswith("obsolete"):
            rows.append((key, files[:40], what, "(obsolete)", "", "", "matrix 1: missed -> hidden + visible column of one name through a SQL subquery (C11); caught in matrix 2; " + m["status"][:160]))
            continue
        rows.append((key, files[:40], what, ", ".join(m.get("caught_by", [])) or "**none**", ", ".join(m.get("not_caught_by", [])), first[:60], HIST.get(key, "")))
    live = [r for r in rows if r[3] != "(obsolete)"]
    own = sum(1 for r in live if r[0].split("-")[0] in r[3].split(", "))
    anyc = sum(1 for r in live if r[3] != "**none**")
    out = TEXT
    out += f"**Result ({len(live)} confirmed changes: 99 of rounds 1-4 as measured at the end of the previous session, 20 of round 5 measured on the final tree of this session):** {anyc} caught by at least one check that was run, {own} by the check of their own property.\n\n"
    out += "| change | file(s) | what it breaks (abridged) | caught by | run, not caught | first witness | history |\n|---|---|---|---|---|---|---|\n"
    for r in rows:
        out += "| " + " | ".join(r) + " |\n"
    out += "\n---------------------------------------------------------------------------------------------\n\n"
    p = os.path.join(ROOT, "DESIGN.md")
    s = open(p).read()
    if "## 10. Seeded changes" in s:
        i = s.index("## 10. Seeded changes")
        j = s.index("## Appendix A")
        s = s[:i] + out + s[j:]
    else:
        j = s.index("## Appendix A")
        s = s[:j] + out + s[j:]
    open(p, "w").write(s)
    print(len(rows), "rows;", anyc, "caught;", own, "by own check")


if __name__ == "__main__":
    main()
